"""C01 -- quaternions and rotation matrices are one rotation group (all conversion routes)."""
import numpy as np
from rvc.api import *

I3 = np.identity(3)


def _det3(M):
    return (M[0, 0] * (M[1, 1] * M[2, 2] - M[1, 2] * M[2, 1]) - M[0, 1] * (M[1, 0] * M[2, 2] - M[1, 2] * M[2, 0])
            + M[0, 2] * (M[1, 0] * M[2, 1] - M[1, 1] * M[2, 0]))


def _proper(c, name, M):
    c.goal_shape(f'{name}.shape', M, (3, 3))
    c.goal_eq(f'{name}.orthogonal', M @ M.T, c.arr(I3))
    c.goal(f'{name}.det', eq(_det3(M), 1))


def _hat(q):
    n = sqrtv(dot(q, q))
    return q / n


ROUTES = ['Quaternion.to_DCM', 'QuaternionArray.to_DCM', 'DCM.from_quaternion', 'DCM.from_quaternion.2d',
          'DCM(q=)', 'q2R.v1', 'q2R.v2', 'q2R.v1.2d', 'q2R.v2.2d']


def _route(c, route, q, q2=None):
    """matrix of the non-zero 4-vector q through one public route (q2: second row for the array routes)"""
    a = c.ahrs
    other = q2 if q2 is not None else c.arr([0.5, -0.5, 0.5, 0.5])
    if route == 'Quaternion.to_DCM':
        return a.Quaternion(q).to_DCM()
    if route == 'QuaternionArray.to_DCM':
        return a.QuaternionArray(np.array([other, q])).to_DCM()[1]
    if route == 'DCM.from_quaternion':
        return a.DCM.from_quaternion(q)
    if route == 'DCM.from_quaternion.2d':
        return a.DCM.from_quaternion(np.array([other, q]))[1]
    if route == 'DCM(q=)':
        return a.DCM(q=q).A
    if route.startswith('q2R'):
        ver = 1 if '.v1' in route else 2
        if route.endswith('.2d'):
            return a.common.orientation.q2R(np.array([other, q]), version=ver)[1]
        return a.common.orientation.q2R(q.copy(), version=ver)
    raise KeyError(route)


@contract('C01', 'route', variants=[dict(route=r) for r in ROUTES],
          functions=['Quaternion.__new__', 'Quaternion.to_DCM', 'QuaternionArray.__new__', 'QuaternionArray.to_DCM',
                     'QuaternionArray.is_versor', 'DCM.from_quaternion', 'DCM.from_q', 'DCM.__new__', 'dcm._assert_SO3',
                     'orientation.q2R'])
def c_route(c):
    """every route yields a proper rotation equal to the Euler-Rodrigues matrix of q/|q|; q and -q agree"""
    q = c.reals('q', 4)
    c.assume(ne(dot(q, q), 0))
    M = _route(c, c.p['route'], q)
    _proper(c, 'M', M)
    c.goal_eq('M=spec', M, mat_of_quat(_hat(q)))
    Mneg = _route(c, c.p['route'], -q)
    c.goal_eq('M(-q)=M(q)', Mneg, M)
    c.observe('M', M)


@contract('C01', 'conjugate=transpose', variants=[dict(cls='Quaternion'), dict(cls='QuaternionArray'), dict(cls='q_conj')],
          functions=['Quaternion.conjugate', 'QuaternionArray.conjugate', 'orientation.q_conj'])
def c_conj(c):
    q = c.reals('q', 4)
    c.assume(ne(dot(q, q), 0))
    a = c.ahrs
    if c.p['cls'] == 'Quaternion':
        Q = a.Quaternion(q)
        M = Q.to_DCM(); Mc = a.Quaternion(Q.conjugate).to_DCM()
        c.goal_eq('conj=spec', Q.conjugate, qconj(Q.A))
    elif c.p['cls'] == 'QuaternionArray':
        QA = a.QuaternionArray(np.array([q, c.arr([0.5, 0.5, -0.5, 0.5])]))
        M = QA.to_DCM()[0]; Mc = a.QuaternionArray(QA.conjugate()).to_DCM()[0]
        c.goal_eq('conj=spec', QA.conjugate()[0], qconj(QA.array[0]))
    else:
        o = a.common.orientation
        M = o.q2R(q.copy()); Mc = o.q2R(o.q_conj(q))
    c.goal_eq('M(q*)=M(q)^T', Mc, M.T)
    c.observe('Mc', Mc)


@contract('C01', 'homomorphism', variants=[dict(via='product'), dict(via='mul'), dict(via='matmul'), dict(via='q_prod')], cost=10,
          functions=['Quaternion.product', 'Quaternion.__mul__', 'Quaternion.__matmul__', 'orientation.q_prod', 'Quaternion.to_DCM'])
def c_hom(c):
    """M(p*q) = M(p) M(q) for unit p, q (constructor normalisation included: p, q arbitrary non-zero)"""
    a = c.ahrs
    p, q = c.reals('p', 4), c.reals('q', 4)
    c.assume(ne(dot(p, p), 0)); c.assume(ne(dot(q, q), 0))
    P, Q = a.Quaternion(p), a.Quaternion(q)
    c.summarize('Pn', P.A, lambda a: eq(dot(a, a), 1))      # from here on P, Q are just unit quaternions
    c.summarize('Qn', Q.A, lambda a: eq(dot(a, a), 1))
    if c.p['via'] == 'product':
        pq = P.product(Q)
    elif c.p['via'] == 'mul':
        pq = P * Q
    elif c.p['via'] == 'matmul':
        pq = P @ Q
    else:
        pq = a.common.orientation.q_prod(P.A, Q.A)
    c.goal('product-is-unit', eq(dot(pq, pq), 1))
    Mpq = a.Quaternion(pq, versor=False).to_DCM()
    c.goal_eq('hom', Mpq, P.to_DCM() @ Q.to_DCM())
    c.observe('Mpq', Mpq)


@contract('C01', 'homomorphism.renormalised', cost=10, functions=['Quaternion.__new__', 'Quaternion.product'])
def c_hom2(c):
    """the usual route Quaternion(P*Q): the constructor's renormalisation of a unit product changes nothing"""
    a = c.ahrs
    p, q = c.unit_quat('p'), c.unit_quat('q')
    P, Q = a.Quaternion(p, versor=False), a.Quaternion(q, versor=False)
    pq = qmul(p, q)
    c.lemma('|pq|=1', eq(dot(pq, pq), 1))
    PQ = a.Quaternion(P * Q)
    c.goal_eq('renormalised=product', PQ.A, qmul(p, q))
    c.observe('PQ', PQ.A)


@contract('C01', 'rotate', functions=['Quaternion.rotate', 'Quaternion.to_DCM', 'Quaternion.product', 'Quaternion.conjugate'])
def c_rotate(c):
    """rotate(v) = M(q) v = vec(q (0,v) q*)"""
    a = c.ahrs
    q, v = c.reals('q', 4), c.reals('v', 3)
    c.assume(ne(dot(q, q), 0))
    c.assume(ne(dot(v, v), 0))      # Quaternion() below rejects the zero vector; v = 0 is trivial
    Q = a.Quaternion(q)
    rv = Q.rotate(v)
    c.goal_eq('rotate=Mv', rv, mat_of_quat(Q.A) @ v)
    qv = Q.product(np.array([0.0, *v]))
    qvq = a.Quaternion(qv, versor=False).product(Q.conjugate)
    c.goal('sandwich.scalar', eq(qvq[0], 0))
    c.goal_eq('sandwich.vector', qvq[1:], rv)
    V = np.array([v, 2.0 * v]).T     # (3, N) input
    c.goal_eq('rotate.2d', Q.rotate(V), mat_of_quat(Q.A) @ V)
    c.observe('rv', rv)


@contract('C01', 'q_rot-is-inverse-rotation', functions=['orientation.q_rot'])
def c_qrot(c):
    a = c.ahrs
    q, v = c.unit_quat('q'), c.reals('v', 3)
    r = a.common.orientation.q_rot(q, v)
    c.goal_eq('q_rot=M^T v', r, mat_of_quat(q).T @ v)
    c.observe('r', r)
