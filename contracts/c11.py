"""C11 -- constructors only produce valid rotations and reject what cannot be one."""
import numpy as np
from rvc.api import *

I3 = np.identity(3)


def _det3(M):
    return (M[0, 0] * (M[1, 1] * M[2, 2] - M[1, 2] * M[2, 1]) - M[0, 1] * (M[1, 0] * M[2, 2] - M[1, 2] * M[2, 0])
            + M[0, 2] * (M[1, 0] * M[2, 1] - M[1, 1] * M[2, 0]))


def _proper(c, name, M):
    M = np.asarray(M)
    c.goal_shape(f'{name}.shape', M, (3, 3))
    c.goal_eq(f'{name}.orthogonal', M @ M.T, c.arr(I3))
    c.goal(f'{name}.det', eq(_det3(M), 1))


@contract('C11', 'Quaternion(v)', variants=[dict(n=4), dict(n=3)], functions=['Quaternion.__new__'])
def c_quat_ctor(c):
    """any vector: non-zero -> unit quaternion pointing the same way; zero -> ValueError (and only then)"""
    v = c.reals('v', c.p['n'])
    try:
        Q = c.ahrs.Quaternion(v)
    except ValueError:
        c.goal('rejects-only-zero', eq(dot(v, v), 0))
        return
    c.goal('accepts-only-nonzero', ne(dot(v, v), 0))
    A = Q.A
    c.goal_shape('shape', A, (4,))
    c.goal('unit', eq(dot(A, A), 1))
    n = sqrtv(dot(v, v))
    full = v if c.p['n'] == 4 else np.array([0.0, *v])
    c.goal_eq('same-direction', A * n, full)
    c.goal_eq('array-is-A', np.asarray(Q), A)
    c.observe('A', A)


@contract('C11', 'QuaternionArray(V)', variants=[dict(n=4), dict(n=3)], functions=['QuaternionArray.__new__'])
def c_qarr_ctor(c):
    V = c.reals('V', (2, c.p['n']))
    try:
        QA = c.ahrs.QuaternionArray(V)
    except ValueError:
        c.goal('rejects-only-zero-rows', Or(eq(dot(V[0], V[0]), 0), eq(dot(V[1], V[1]), 0)))
        return
    c.goal('accepts-only-nonzero', And(ne(dot(V[0], V[0]), 0), ne(dot(V[1], V[1]), 0)))
    A = QA.array
    c.goal_shape('shape', A, (2, 4))
    for i in range(2):
        c.goal(f'unit[{i}]', eq(dot(A[i], A[i]), 1))
        n = sqrtv(dot(V[i], V[i]))
        full = V[i] if c.p['n'] == 4 else np.array([0.0, *V[i]])
        c.goal_eq(f'same-direction[{i}]', A[i] * n, full)
    c.observe('A', A)


@contract('C11', 'add/sub', variants=[dict(op='add'), dict(op='sub')], functions=['Quaternion.__add__', 'Quaternion.__sub__'])
def c_addsub(c):
    """non-vanishing sums and differences are again unit quaternions"""
    p, q = c.unit_quat('p'), c.unit_quat('q')
    a = c.ahrs
    P = a.Quaternion(p, versor=False)
    s = p + q if c.p['op'] == 'add' else p - q
    c.assume(ne(dot(s, s), 0))
    R = (P + q) if c.p['op'] == 'add' else (P - q)
    c.goal('unit', eq(dot(R.A, R.A), 1))
    c.goal_eq('direction', R.A * sqrtv(dot(s, s)), s)
    c.observe('R', R.A)


@contract('C11', 'random_attitudes', variants=[dict(n=1, rep='quaternion'), dict(n=2, rep='quaternion'),
                                               dict(n=1, rep='rotmat'), dict(n=2, rep='rotmat')],
          functions=['quaternion.random_attitudes'], no_crosscheck=True)
def c_random(c):
    """whatever the generator draws in [0,1)^3, the result is a unit quaternion / proper rotation"""
    r = c.ahrs.common.quaternion.random_attitudes(c.p['n'], c.p['rep'])
    if not c.symbolic:
        r = np.asarray(r)
    if c.p['rep'] == 'quaternion':
        rows = [r] if c.p['n'] == 1 else list(r)
        c.goal('count', len(rows) == c.p['n'] and all(np.shape(x) == (4,) for x in rows))
        for i, x in enumerate(rows):
            c.goal(f'unit[{i}]', eq(dot(x, x), 1))
    else:
        mats = [r] if c.p['n'] == 1 else list(r)
        for i, M in enumerate(mats):
            _proper(c, f'R[{i}]', M)


@contract('C11', 'rotate_by', variants=[dict(order='H', inplace=False), dict(order='H', inplace=True), dict(order='S', inplace=False)],
          functions=['QuaternionArray.rotate_by'])
def c_rotate_by(c):
    V = c.reals('V', (2, 4)); q = c.reals('q', 4)
    for i in range(2):
        c.assume(ne(dot(V[i], V[i]), 0))
    c.assume(ne(dot(q, q), 0))
    QA = c.ahrs.QuaternionArray(V)
    before = QA.array.copy()
    qin = q if c.p['order'] == 'H' else np.roll(q, -1)       # the same quaternion, stored scalar-last
    out = QA.rotate_by(c.track('q', qin), inplace=c.p['inplace'], order=c.p['order'])
    res = QA.array if c.p['inplace'] else out
    qh = q / sqrtv(dot(q, q))
    for i in range(2):
        c.goal(f'unit[{i}]', eq(dot(res[i], res[i]), 1))
        c.goal_eq(f'is-q*Q[{i}]', res[i], qmul(qh, before[i]))
    c.observe('res', res)


@contract('C11', 'DCM(matrix)', functions=['DCM.__new__', 'dcm._assert_SO3'])
def c_dcm_matrix(c):
    q = c.unit_quat('q')
    R = mat_of_quat(q)
    D = c.ahrs.DCM(R)
    c.goal_eq('wraps-the-matrix', D.A, R)
    _proper(c, 'R', D.A)
    D3 = c.ahrs.common.dcm._assert_SO3(np.array([R, R.T]))      # the (N,3,3) acceptance path
    c.goal('batch-accepted', D3 is None)


@contract('C11', 'DCM.reject', variants=[dict(kind='reflection'), dict(kind='scaled'), dict(kind='shear'),
                                        dict(kind='Quaternion(dcm=)'), dict(kind='reflection-stack')],
          functions=['dcm._assert_SO3', 'DCM.__new__', 'Quaternion.from_DCM'])
def c_dcm_reject(c):
    """reflections, scaled (|s-1| > 1e-4) and sheared (|e| > 1e-4) matrices raise ValueError, never wrapped"""
    q = c.unit_quat('q')
    R = mat_of_quat(q)
    k = c.p['kind']
    if k in ('reflection', 'Quaternion(dcm=)', 'reflection-stack'):
        B = R @ c.arr(np.diag([1.0, 1.0, -1.0]))
        if k == 'reflection-stack':
            B = np.array([R, B])          # one reflection among proper rotations, as an (N,3,3) stack
    elif k == 'scaled':
        s = c.real('s')
        c.assume(Or(gt(s, 1 + 1e-4), lt(s, 1 - 1e-4)))
        B = s * R
        c.lemma('det(sR)=s^3', eq(_det3(B), s * s * s))
        c.lemma('(sR)(sR)^T[0,0]=s^2', eq((B @ B.T)[0, 0], s * s))
    else:
        e = c.real('e')
        c.assume(Or(gt(e, 1e-4), lt(e, -1e-4)))
        S = np.identity(3).astype(object) if c.symbolic else np.identity(3)
        S[0, 1] = e
        B = R @ S
        D = B @ B.T - c.arr(I3)
        c.lemma('|BB^T-I|_F^2=2e^2+e^4', eq(sum(D[i, j] * D[i, j] for i in range(3) for j in range(3)), 2 * e * e + e * e * e * e))
    try:
        if k == 'Quaternion(dcm=)':
            c.ahrs.Quaternion(dcm=B)
        else:
            c.ahrs.DCM(B)
    except ValueError:
        c.goal('rejected', True)
        return
    if k == 'shear':
        # no exception was raised on this path, i.e. np.allclose(B B^T, I) held: every |D_ij| is tiny ...
        for i in range(3):
            for j in range(3):
                t = 1e-8 + (1e-5 if i == j else 0.0)
                c.lemma(f'D[{i},{j}]^2-small', le(D[i, j] * D[i, j], t * t))
        # ... which contradicts |D|_F^2 = 2e^2 + e^4 >= 2e-8
    c.goal('rejected', False)


ANG = dict(lo=-3.1415926, hi=3.1415926)


@contract('C11', 'DCM(angles)', variants=[dict(route='xyz'), dict(route='rpy'), dict(route='euler'), dict(route='axang')],
          functions=['DCM.__new__', 'dcm.rotation', 'dcm.rot_seq', 'DCM.from_axisangle', 'mathfuncs.skew'])
def c_dcm_angles(c):
    """every keyword route yields a proper rotation"""
    a = c.ahrs
    import math
    r = c.p['route']
    if r == 'axang':
        ax = c.reals('ax', 3)
        c.assume(ne(dot(ax, ax), 0))
        th = c.angle('t', -math.pi, math.pi)
        D = a.DCM(axang=(ax, th))
    else:
        x = c.angle('x', -math.pi, math.pi); y = c.angle('y', -math.pi, math.pi); z = c.angle('z', -math.pi, math.pi)
        if r == 'xyz':
            D = a.DCM(x=x, y=y, z=z)
        elif r == 'rpy':
            D = a.DCM(rpy=[x, y, z])
        else:
            D = a.DCM(euler=('zxz', [x, y, z]))
    _proper(c, 'R', D.A)
    c.observe('R', D.A)


NOT_COVERED = ["NaN-containing inputs (no NaN over the reals)",
               "the general acceptance/rejection boundary in the distance to SO(3) (only the reflection, uniform scaling and single-entry shear families are proved rejected; M(q) is proved accepted)",
               "QuaternionArray.average (np.linalg.eig) -- see C03 assumptions",
               "wrong-shape rejections are concrete enumerations (see tests); not re-proved here"]
