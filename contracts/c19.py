"""C19 -- public functions never modify the caller's arrays and are repeatable.

Every entry of CALLS is one public callable with array arguments; its arrays are symbolic and tracked:
on every path each element of every caller array must still be the object that went in (or a term proved
equal to it).  Stateless callables are also called twice and must return the same value."""
import numpy as np
from rvc.api import *


def _arr(c, name, shape, nonzero=True):
    a = c.reals(name, shape)
    if nonzero:
        if a.ndim == 1:
            c.assume(ne(dot(a, a), 0))
        elif a.ndim == 2 and a.shape[-1] in (3, 4):
            for r in a:
                c.assume(ne(dot(r, r), 0))
    return c.track(name, a)


def _rot(c, name):
    q = c.unit_quat(name + 'q')
    return c.track(name, mat_of_quat(q))


# name -> (builder(c) -> (callable, args list), repeatable?)
def _o(c): return c.ahrs.common.orientation
def _qm(c): return c.ahrs.common.quaternion
def _f(c): return c.ahrs.filters
def _m(c): return c.ahrs.utils.metrics


CALLS = {
    # ---- orientation free functions
    'q_conj': lambda c: (_o(c).q_conj, [_arr(c, 'q', 4)]),
    'q_conj.2d': lambda c: (_o(c).q_conj, [_arr(c, 'q', (2, 4))]),
    'q_norm': lambda c: (_o(c).q_norm, [_arr(c, 'q', 4)]),
    'q_norm.2d': lambda c: (_o(c).q_norm, [_arr(c, 'q', (2, 4))]),
    'q_prod': lambda c: (_o(c).q_prod, [_arr(c, 'p', 4), _arr(c, 'q', 4)]),
    'q_mult_L': lambda c: (_o(c).q_mult_L, [_arr(c, 'q', 4)]),
    'q_mult_R': lambda c: (_o(c).q_mult_R, [_arr(c, 'q', 4)]),
    'q_rot': lambda c: (_o(c).q_rot, [_arr(c, 'q', 4), _arr(c, 'v', 3)]),
    'axang2quat': lambda c: (_o(c).axang2quat, [_arr(c, 'ax', 3), c.angle('t', -3.0, 3.0)]),
    'quat2axang': lambda c: (_o(c).quat2axang, [_arr(c, 'q', 4)]),
    'q_correct': lambda c: (_o(c).q_correct, [_arr(c, 'q', (3, 4))]),
    'q2R.v1': lambda c: (lambda q: _o(c).q2R(q, 1), [_arr(c, 'q', 4)]),
    'q2R.v2': lambda c: (lambda q: _o(c).q2R(q, 2), [_arr(c, 'q', 4)]),
    'q2R.2d': lambda c: (_o(c).q2R, [_arr(c, 'q', (2, 4))]),
    'q2euler': lambda c: (_o(c).q2euler, [_arr(c, 'q', 4)]),
    'dcm2quat': lambda c: (_o(c).dcm2quat, [_rot(c, 'R')]),
    'rpy2q': lambda c: (_o(c).rpy2q, [c.track('ang', np.array([c.angle('r', -3, 3), c.angle('p', -1.5, 1.5), c.angle('y', -3, 3)]))]),
    'rpy2q.deg': lambda c: (lambda a: _o(c).rpy2q(a, in_deg=True),
                            [c.track('ang', np.array([c.angle_deg('r', -3, 3), c.angle_deg('p', -1.5, 1.5), c.angle_deg('y', -3, 3)]))]),
    'q2rpy': lambda c: (_o(c).q2rpy, [_arr(c, 'q', 4)]),
    'q2rpy.deg': lambda c: (lambda q: _o(c).q2rpy(q, in_deg=True), [_arr(c, 'q', 4)]),
    'ecompass.ENU': lambda c: (lambda a, m: _o(c).ecompass(a, m, 'ENU', 'rotmat'), [_arr(c, 'a', 3), _arr(c, 'm', 3)]),
    'ecompass.NED.quat': lambda c: (lambda a, m: _o(c).ecompass(a, m, 'NED', 'quaternion'), [_arr(c, 'a', 3), _arr(c, 'm', 3)]),
    'am2DCM': lambda c: (_o(c).am2DCM, [_arr(c, 'a', 3), _arr(c, 'm', 3)]),
    'am2q': lambda c: (_o(c).am2q, [_arr(c, 'a', 3), _arr(c, 'm', 3)]),
    'acc2q': lambda c: (_o(c).acc2q, [_arr(c, 'a', 3)]),
    'am2angles': lambda c: (_o(c).am2angles, [_arr(c, 'a', 3), _arr(c, 'm', 3)]),
    'am2angles.2d': lambda c: (_o(c).am2angles, [_arr(c, 'a', (2, 3)), _arr(c, 'm', (2, 3))]),
    'orientation.slerp': lambda c: (_o(c).slerp, [c.track('q0', c.unit_quat('q0')), c.track('q1', c.unit_quat('q1')),
                                                  c.track('t', c.arr([0.0, 0.25, 1.0]))]),
    'quaternion.slerp': lambda c: (_qm(c).slerp, [c.track('q0', c.unit_quat('q0')), c.track('q1', c.unit_quat('q1')),
                                                  c.track('t', c.arr([0.0, 0.25, 1.0]))]),
    'chiaverini': lambda c: (_o(c).chiaverini, [_rot(c, 'R')]),
    'hughes': lambda c: (_o(c).hughes, [_rot(c, 'R')]),
    'sarabandi': lambda c: (_o(c).sarabandi, [_rot(c, 'R')]),
    'shepperd': lambda c: (_o(c).shepperd, [_rot(c, 'R')]),
    # ---- classes
    'Quaternion()': lambda c: (c.ahrs.Quaternion, [_arr(c, 'q', 4)]),
    'Quaternion(3)': lambda c: (c.ahrs.Quaternion, [_arr(c, 'q', 3)]),
    'Quaternion(versor=False)': lambda c: (lambda q: c.ahrs.Quaternion(q, versor=False), [_arr(c, 'q', 4)]),
    'Quaternion(dcm=)': lambda c: (lambda R: c.ahrs.Quaternion(dcm=R), [_rot(c, 'R')]),
    'Quaternion.product': lambda c: (lambda p, q: c.ahrs.Quaternion(p).product(q), [_arr(c, 'p', 4), _arr(c, 'q', 4)]),
    'Quaternion.rotate': lambda c: (lambda p, v: c.ahrs.Quaternion(p).rotate(v), [_arr(c, 'p', 4), _arr(c, 'v', 3)]),
    'Quaternion.add': lambda c: (lambda p, q: c.ahrs.Quaternion(p) + q, [_arr(c, 'p', 4), _arr(c, 'q', 4)]),
    'Quaternion.ode': lambda c: (lambda p, w: c.ahrs.Quaternion(p).ode(w), [_arr(c, 'p', 4), _arr(c, 'w', 3)]),
    'QuaternionArray()': lambda c: (c.ahrs.QuaternionArray, [_arr(c, 'Q', (2, 4))]),
    'QuaternionArray(versors=False)': lambda c: (lambda Q: c.ahrs.QuaternionArray(Q, versors=False), [_arr(c, 'Q', (2, 4))]),
    'QuaternionArray.rotate_by': lambda c: (lambda Q, q: c.ahrs.QuaternionArray(Q).rotate_by(q), [_arr(c, 'Q', (2, 4)), _arr(c, 'q', 4)]),
    'QuaternionArray(DCM=)': lambda c: (lambda R: c.ahrs.QuaternionArray(DCM=R), [c.track('R', np.array([mat_of_quat(c.unit_quat('a')), mat_of_quat(c.unit_quat('b'))]))]),
    'DCM()': lambda c: (c.ahrs.DCM, [_rot(c, 'R')]),
    'DCM(q=)': lambda c: (lambda q: c.ahrs.DCM(q=q), [_arr(c, 'q', 4)]),
    'DCM.from_quaternion.2d': lambda c: (c.ahrs.DCM.from_quaternion, [_arr(c, 'Q', (2, 4))]),
    'DCM.to_quaternion': lambda c: (lambda R: c.ahrs.DCM(R).to_quaternion(), [_rot(c, 'R')]),
    'DCM.ode': lambda c: (lambda R, w: c.ahrs.DCM(R).ode(w), [_rot(c, 'R'), _arr(c, 'w', 3)]),
    'skew': lambda c: (c.ahrs.common.mathfuncs.skew, [_arr(c, 'x', 3, nonzero=False)]),
    'ned2enu': lambda c: (c.ahrs.common.frames.ned2enu, [_arr(c, 'x', (2, 3), nonzero=False)]),
    # ---- metrics
    'chordal': lambda c: (_m(c).chordal, [_rot(c, 'A'), _rot(c, 'B')]),
    'identity_deviation': lambda c: (_m(c).identity_deviation, [_rot(c, 'A'), _rot(c, 'B')]),
    'qdist': lambda c: (_m(c).qdist, [_arr(c, 'p', 4), _arr(c, 'q', 4)]),
    'qdist.2d': lambda c: (_m(c).qdist, [_arr(c, 'p', (2, 4)), _arr(c, 'q', (2, 4))]),
    'qeip.2d': lambda c: (_m(c).qeip, [_arr(c, 'p', (2, 4)), _arr(c, 'q', (2, 4))]),
    'qcip.2d': lambda c: (_m(c).qcip, [_arr(c, 'p', (2, 4)), _arr(c, 'q', (2, 4))]),
    'qad.2d': lambda c: (_m(c).qad, [_arr(c, 'p', (2, 4)), _arr(c, 'q', (2, 4))]),
    'euclidean': lambda c: (_m(c).euclidean, [_arr(c, 'x', 3, nonzero=False), _arr(c, 'y', 3, nonzero=False)]),
    'rmse': lambda c: (_m(c).rmse, [_arr(c, 'x', (2, 3), nonzero=False), _arr(c, 'y', (2, 3), nonzero=False)]),
    # ---- single-frame estimators (method call and constructor)
    'TRIAD.estimate': lambda c: (_f(c).TRIAD().estimate, [_arr(c, 'a', 3), _arr(c, 'm', 3)]),
    'TRIAD()': lambda c: (lambda a, m: _f(c).TRIAD(a, m).A, [_arr(c, 'a', 3), _arr(c, 'm', 3)]),
    'TRIAD(2d)': lambda c: (lambda a, m: _f(c).TRIAD(a, m).A, [_arr(c, 'a', (2, 3)), _arr(c, 'm', (2, 3))]),
    'SAAM.estimate': lambda c: (_f(c).SAAM().estimate, [_arr(c, 'a', 3), _arr(c, 'm', 3)]),
    'SAAM(2d)': lambda c: (lambda a, m: _f(c).SAAM(a, m).Q, [_arr(c, 'a', (2, 3)), _arr(c, 'm', (2, 3))]),
    'FAMC.estimate': lambda c: (_f(c).FAMC().estimate, [_arr(c, 'a', 3), _arr(c, 'm', 3)]),
    'FQA.estimate': lambda c: (_f(c).FQA().estimate, [_arr(c, 'a', 3), _arr(c, 'm', 3)]),
    'FQA()': lambda c: (lambda a, m: _f(c).FQA(a, m).Q, [_arr(c, 'a', 3), _arr(c, 'm', 3)]),
    'Tilt.estimate': lambda c: (_f(c).Tilt().estimate, [_arr(c, 'a', 3), _arr(c, 'm', 3)]),
    'Tilt(2d)': lambda c: (lambda a, m: _f(c).Tilt(a, m).Q, [_arr(c, 'a', (2, 3)), _arr(c, 'm', (2, 3))]),
    'AQUA.estimate': lambda c: (_f(c).AQUA().estimate, [_arr(c, 'a', 3), _arr(c, 'm', 3)]),
    'FLAE(weights=)': lambda c: (lambda w: _f(c).FLAE(weights=w).a, [c.track('w', c.reals('w', 2))]),
    # ---- recursive filter steps
    'Madgwick.updateIMU': lambda c: (_f(c).Madgwick().updateIMU, [c.track('q', c.unit_quat('q')), _arr(c, 'g', 3), _arr(c, 'a', 3)]),
    'Madgwick.updateMARG': lambda c: (_f(c).Madgwick().updateMARG, [c.track('q', c.unit_quat('q')), _arr(c, 'g', 3), _arr(c, 'a', 3), _arr(c, 'm', 3)]),
    'Mahony.updateIMU': lambda c: (_f(c).Mahony().updateIMU, [c.track('q', c.unit_quat('q')), _arr(c, 'g', 3), _arr(c, 'a', 3)]),
    'Mahony.updateMARG': lambda c: (_f(c).Mahony().updateMARG, [c.track('q', c.unit_quat('q')), _arr(c, 'g', 3), _arr(c, 'a', 3), _arr(c, 'm', 3)]),
    'Mahony(b0=)': lambda c: (lambda b: _f(c).Mahony(b0=b).b, [_arr(c, 'b', 3, nonzero=False)]),
    # constructor keeps what it was given, a later step must not write into it
    'Mahony(q0,b0).updateIMU': lambda c: (lambda q0, b0, g, a: _f(c).Mahony(q0=q0, b0=b0).updateIMU(q0, g, a),
                                          [c.track('q0', c.unit_quat('q0')), _arr(c, 'b0', 3, nonzero=False), _arr(c, 'g', 3), _arr(c, 'a', 3)]),
    'Madgwick(q0).updateIMU': lambda c: (lambda q0, g, a: _f(c).Madgwick(q0=q0).updateIMU(q0, g, a),
                                         [c.track('q0', c.unit_quat('q0')), _arr(c, 'g', 3), _arr(c, 'a', 3)]),
    'AngularRate(q0).update': lambda c: (lambda q0, g: _f(c).AngularRate(q0=q0).update(q0, g),
                                         [c.track('q0', c.unit_quat('q0')), _arr(c, 'g', 3)]),
    'EKF(q0).update': lambda c: (lambda q0, g, a: _f(c).EKF(q0=q0).update(q0, g, a),
                                 [c.track('q0', c.unit_quat('q0')), _arr(c, 'g', 3), _arr(c, 'a', 3)]),
    'AngularRate.update': lambda c: (_f(c).AngularRate().update, [c.track('q', c.unit_quat('q')), _arr(c, 'g', 3)]),
    'AQUA.updateIMU': lambda c: (_f(c).AQUA().updateIMU, [c.track('q', c.unit_quat('q')), _arr(c, 'g', 3), _arr(c, 'a', 3)]),
    'EKF.update.imu': lambda c: (_f(c).EKF().update, [c.track('q', c.unit_quat('q')), _arr(c, 'g', 3), _arr(c, 'a', 3)]),
    'Fourati.update': lambda c: (_f(c).Fourati().update, [c.track('q', c.unit_quat('q')), _arr(c, 'g', 3), _arr(c, 'a', 3), _arr(c, 'm', 3)]),
    'ROLEQ.update': lambda c: (_f(c).ROLEQ().update, [c.track('q', c.unit_quat('q')), _arr(c, 'g', 3), _arr(c, 'a', 3), _arr(c, 'm', 3)]),
}

REPEATABLE_SKIP = {'FLAE(weights=)', 'Mahony(b0=)', 'Tilt.estimate', 'Tilt(2d)', 'FQA()', 'FQA.estimate'}
STATEFUL = {'Mahony.updateIMU', 'Mahony.updateMARG', 'EKF.update.imu', 'Fourati.update', 'Mahony(q0,b0).updateIMU',
            'Madgwick(q0).updateIMU', 'AngularRate(q0).update', 'EKF(q0).update'}


HEAVY = {'FQA()', 'FQA.estimate', 'Tilt(2d)', 'sarabandi', 'ecompass.NED.quat'}


@contract('C19', 'frame', variants=[dict(call=k) for k in CALLS if k not in HEAVY], optional=True, cas=False, feas_timeout_ms=1000,
          budget_s=240, max_paths=400, no_crosscheck=True, no_safety=True,
          functions=sorted(CALLS))
def c_frame(c):
    """no path of the callable changes an element of a caller array; a second call returns the same value"""
    name = c.p['call']
    fn, args = CALLS[name](c)
    if name in STATEFUL:
        # fresh instance per call (carried filter state is part of the object, not of the caller's arrays)
        pass
    try:
        r1 = fn(*args)
    except (ValueError, TypeError, ZeroDivisionError, np.linalg.LinAlgError, AttributeError):
        return                      # rejecting an input is fine; the frame check still runs in finish()
    if name in REPEATABLE_SKIP or name in STATEFUL:
        return
    try:
        r2 = fn(*args)
    except (ValueError, TypeError, ZeroDivisionError, np.linalg.LinAlgError, AttributeError):
        c.goal('repeatable', False)
        return
    _same(c, 'repeatable', r1, r2)


@contract('C19', 'frame.heavy', variants=[dict(call=k) for k in sorted(HEAVY)], optional=True, cas=False, feas_timeout_ms=1000,
          budget_s=1200, max_paths=3000, no_crosscheck=True, no_safety=True, thorough_only=True, functions=sorted(HEAVY))
def c_frame_heavy(c):
    c_frame(c)


def _same(c, name, a, b):
    if isinstance(a, tuple) and isinstance(b, tuple) and len(a) == len(b):
        for i, (x, y) in enumerate(zip(a, b)):
            _same(c, f'{name}.{i}', x, y)
        return
    if a is None and b is None:
        return
    A, B = np.asarray(a), np.asarray(b)
    if A.shape != B.shape:
        c.goal(name + '.shape', False)
        return
    c.goal_eq(name, A, B)


NOT_COVERED = ["callables whose unit is reported 'unsupported' or exhausts its budget in the evidence (eig-based: Davenport, "
               "QUEST, FLAE.estimate, OLEQ; UKF; Complementary; FKF; Sensors; WMM)",
               "repeatability of stateful filter steps (they carry P / bias state by design)"]
