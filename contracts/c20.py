"""C20 -- synthetic sensor data agree with their own ground truth."""
import numpy as np
from rvc.api import *


def _traj(c, n=2):
    Q = np.array([c.unit_quat(f'q{i}') for i in range(n)])
    return Q


@contract('C20', 'given-quaternions', variants=[dict(deg=False), dict(deg=True)], cas=True, no_safety=True, feas_timeout_ms=1500,
          budget_s=900, max_paths=64, no_crosscheck=True,
          functions=['Sensors.__init__', 'Sensors.generate', 'QuaternionArray.to_DCM', 'QuaternionArray.to_angles',
                     'QuaternionArray.angular_velocities'])
def c_given(c):
    """for a given quaternion trajectory and zero accelerometer noise: accelerometers[i] = R_i^T g_ref exactly, rotations
    are the matrices of the quaternions, quaternions are kept, and the reported gyro bias is the one applied"""
    S = c.ahrs.utils.sensors
    Q = _traj(c)
    g_ref = c.arr([0.0, 0.0, 9.81])
    m_ref = c.arr([20.0, 1.0, 40.0])
    s = S.Sensors(quaternions=Q, freq=100.0, acc_noise=0.0, gyr_noise=0.0, in_degrees=c.p['deg'],
                  reference_gravitational_vector=g_ref, reference_magnetic_vector=m_ref)
    c.goal('num_samples', s.num_samples == 2)
    for i in range(2):
        R = mat_of_quat(Q[i])
        c.goal_eq(f'quaternions[{i}]', s.quaternions.array[i] if hasattr(s.quaternions, 'array') else s.quaternions[i], Q[i])
        c.goal_eq(f'rotations[{i}]', s.rotations[i], R)
        c.goal_eq(f'accelerometers[{i}]=R^T g', s.accelerometers[i], R.T @ g_ref)
    # gyroscopes = ang_vel (in the output unit) + reported bias   (gyr_noise = 0)
    k = 1.0 if not c.p['deg'] else (180.0 / np.pi)
    w = s.ang_vel
    for i in range(2):
        c.goal_eq(f'gyroscopes[{i}]=ang_vel+bias', s.gyroscopes[i], w[i] * k + s.biases_gyroscopes)


@contract('C20', 'magnetometers.noise-free', concrete_points=[dict(n=12, deg=0.0), dict(n=12, deg=1.0)],
          known_finding='KF-C20-mag-noise-override', functions=['Sensors.generate'])
def c_mag_points(c):
    """concrete canonical points (not a proof): with mag_noise = 0 the magnetometer samples must be R_i^T m_ref exactly"""
    import ahrs
    S = ahrs.utils.sensors
    rng = np.random.default_rng(5)
    n = int(c.real('n'))
    Q = rng.normal(size=(n, 4)); Q /= np.linalg.norm(Q, axis=1)[:, None]
    m_ref = np.array([20.0, 1.0, 40.0])
    s = S.Sensors(quaternions=Q, acc_noise=0.0, mag_noise=0.0, gyr_noise=0.0, in_degrees=bool(c.real('deg')),
                  reference_magnetic_vector=m_ref)
    R = ahrs.QuaternionArray(Q).to_DCM()
    ok = all(np.allclose(s.magnetometers[i], R[i].T @ m_ref, atol=1e-9) for i in range(n))
    c.goal('magnetometers=R^T m', ok)
    c.goal('reported-noise-is-applied', s.mag_noise == 0.0)


NOT_COVERED = ["integrating the generated gyroscopes reproduces the trajectory (first-order accurate only)",
               "random trajectories (random_angpos: Gaussian filtering via np.correlate, out of reach)",
               "normalised-magnetometer option; N > 2 rows (A-ROW)"]
