"""C06 -- batch run equals sample-by-sample streaming; filters deterministic and isolated.

For every recursive filter: the filter built over a symbolic 3-sample history must produce, row by row, exactly
what a data-less instance with the same configuration produces when fed the same samples through its update
method from the same initial attitude (all sample values symbolic, every path).  The uniformity of the batch loop
in t (loop schema, checked on the real AST) carries this from 3 samples to every N."""
import ast, inspect, textwrap
import numpy as np
from rvc.api import *

N = 3


def _hist(c, mag=True):
    g = c.reals('g', (N, 3)); a = c.reals('a', (N, 3))
    for r in list(a) + list(g):
        c.assume(ne(dot(r, r), 0))
    m = None
    if mag:
        m = c.reals('m', (N, 3))
        for r in m:
            c.assume(ne(dot(r, r), 0))
    return g, a, m


def _isolation(c, name, f1, f2, caller_arrays):
    """two instances built from the same caller arrays share no mutable array, and keep none of the caller's"""
    ok = True
    for k, v in vars(f1).items():
        if isinstance(v, np.ndarray):
            w = getattr(f2, k, None)
            is_callers = any(ca is not None and (v is ca or (v.base is not None and v.base is ca)) for ca in caller_arrays)
            if w is v and not is_callers:
                # internal mutable state shared by two instances (class-level or default-argument arrays);
                # a kept reference to the caller's own array is not interference by itself (mutation is C19's)
                ok = False
                c.note(f"{name}: attribute {k} is shared by two instances")
    c.goal('isolated', ok)


FILTERS = {
    'Madgwick.IMU': dict(cls='Madgwick', mag=False, cfg=dict(gain=0.05), upd='updateIMU'),
    'Madgwick.MARG': dict(cls='Madgwick', mag=True, cfg=dict(gain=0.05), upd='updateMARG'),
    'Mahony.IMU': dict(cls='Mahony', mag=False, cfg=dict(k_P=0.8, k_I=0.2), upd='updateIMU'),
    'Mahony.MARG': dict(cls='Mahony', mag=True, cfg=dict(k_P=0.8, k_I=0.2), upd='updateMARG'),
    'AngularRate.closed': dict(cls='AngularRate', mag=None, cfg=dict(method='closed'), upd='update', upd_kw=dict(method='closed')),
    'AngularRate.series2': dict(cls='AngularRate', mag=None, cfg=dict(method='series', order=2), upd='update', upd_kw=dict(method='series', order=2)),
    'AQUA.IMU': dict(cls='AQUA', mag=False, cfg=dict(), upd='updateIMU'),
    'AQUA.MARG': dict(cls='AQUA', mag=True, cfg=dict(), upd='updateMARG'),
    'Fourati': dict(cls='Fourati', mag=True, cfg=dict(), upd='update'),
    'ROLEQ': dict(cls='ROLEQ', mag=True, cfg=dict(), upd='update'),
    'EKF.IMU': dict(cls='EKF', mag=False, cfg=dict(), upd='update'),
    'EKF.MARG': dict(cls='EKF', mag=True, cfg=dict(), upd='update'),
}


@contract('C06', 'batch=streaming', variants=[dict(f=k) for k in FILTERS], optional=True, cas=False, no_safety=True,
          feas_timeout_ms=1000, budget_s=400, max_paths=400, no_crosscheck=True, timeout_ms=30000,
          functions=sorted({v['cls'] + '._compute_all' for v in FILTERS.values()} | {v['cls'] + '.' + v['upd'] for v in FILTERS.values()}))
def c_batch(c):
    spec = FILTERS[c.p['f']]
    F = getattr(c.ahrs.filters, spec['cls'])
    g, a, m = _hist(c, mag=bool(spec['mag']))
    kw = dict(spec['cfg'])
    try:
        if spec['cls'] == 'AngularRate':
            B = F(gyr=g, **kw)
        elif spec['mag']:
            B = F(gyr=g, acc=a, mag=m, **kw)
        else:
            B = F(gyr=g, acc=a, **kw)
    except ValueError:
        raise Skip()          # the batch run itself rejects this history (validity of attitudes is C03's business)
    S = F(**kw)
    c.goal('no-rng/clock', not [e for e in __effects() if e[0] in ('RNG', 'CLOCK')]) if c.symbolic else None
    Q = B.Q
    c.goal_shape('one-attitude-per-sample', np.asarray(Q), (N, 4))
    upd = getattr(S, spec['upd'])
    q = np.array(Q[0])
    for t in range(1, N):
        args = [q, g[t]] if spec['cls'] == 'AngularRate' else ([q, g[t], a[t], m[t]] if spec['mag'] else [q, g[t], a[t]])
        q = upd(*args, **spec.get('upd_kw', {}))
        c.goal_eq(f'row[{t}]', np.asarray(q), np.asarray(Q[t]))
    if c.symbolic:
        F2 = F(gyr=g, **kw) if spec['cls'] == 'AngularRate' else (F(gyr=g, acc=a, mag=m, **kw) if spec['mag'] else F(gyr=g, acc=a, **kw))
        _isolation(c, c.p['f'], B, F2, [g, a, m])


def __effects():
    from rvc.core import E
    return list(E.effects)


# ------------------------------------------------------------------------------------------------ loop schema
def _schema_ok(cls, method='_compute_all'):
    """every `for t in range(1, n)` loop of _compute_all has the single statement Q[t] = self.update*(Q[t-1], self.x[t], ...)"""
    src = textwrap.dedent(inspect.getsource(getattr(cls, method)))
    tree = ast.parse(src)
    loops = [n for n in ast.walk(tree) if isinstance(n, ast.For)]
    if not loops:
        return False, 'no loop'
    for lp in loops:
        it = lp.iter
        if not (isinstance(it, ast.Call) and getattr(it.func, 'id', '') == 'range' and len(it.args) == 2
                and isinstance(it.args[0], ast.Constant) and it.args[0].value == 1):
            return False, f'loop at line {lp.lineno}: not range(1, n)'
        tv = lp.target.id
        body = [s for s in lp.body if not (isinstance(s, ast.Expr) and isinstance(s.value, ast.Constant))]
        if len(body) != 1 or not isinstance(body[0], ast.Assign):
            return False, f'loop at line {lp.lineno}: body is not a single assignment'
        st = body[0]
        tgt = st.targets[0]
        if not (isinstance(tgt, ast.Subscript) and isinstance(tgt.slice, ast.Name) and tgt.slice.id == tv):
            return False, 'target is not X[t]'
        call = st.value
        if not (isinstance(call, ast.Call) and isinstance(call.func, ast.Attribute)
                and call.func.attr.startswith(('update', 'attitude', 'estimate'))):
            return False, 'value is not self.update*/estimate(...)'

        def prev(a):      # X[t-1]
            return (isinstance(a, ast.Subscript) and isinstance(a.slice, ast.BinOp) and isinstance(a.slice.op, ast.Sub)
                    and getattr(a.slice.left, 'id', '') == tv and getattr(a.slice.right, 'value', None) == 1)

        def cur(a):       # X[t]
            return isinstance(a, ast.Subscript) and isinstance(a.slice, ast.Name) and a.slice.id == tv

        def conf(a):      # self.attr : a configuration constant of the instance
            return isinstance(a, ast.Attribute) and isinstance(a.value, ast.Name) and a.value.id == 'self'
        for k, ar in enumerate(call.args):
            if prev(ar) and k == 0:
                continue
            if cur(ar) or conf(ar):
                continue
            return False, f'argument {k} of the step call is neither X[t-1] (first), X[t] nor a configuration attribute'
        for kwd in call.keywords:
            if not (conf(kwd.value) or cur(kwd.value)):
                return False, f'keyword {kwd.arg} of the step call is not a configuration attribute'
    return True, f'{len(loops)} loops'


@contract('C06', 'loop-schema', variants=[dict(cls=k) for k in ('Madgwick', 'Mahony', 'AngularRate', 'AQUA', 'Fourati', 'ROLEQ', 'EKF', 'UKF')],
          no_crosscheck=True, functions=['*._compute_all'])
def c_schema(c):
    cls = getattr(c.ahrs.filters, c.p['cls'])
    ok, why = _schema_ok(cls)
    c.note(f"{c.p['cls']}: {why}")
    c.goal('uniform-in-t', ok)


@contract('C06', 'EKF.MARG.streaming', concrete_points=[dict(seed=1.0)], known_finding='KF-C06-EKF-marg-stream',
          functions=['EKF.update', 'EKF.h', 'EKF.dhdq'])
def c_ekf_marg_points(c):
    """concrete canonical history (not a proof): EKF with magnetometer, batch vs streaming on a data-less instance"""
    import ahrs
    rng = np.random.default_rng(int(c.real('seed')))
    n = 5
    g = rng.normal(size=(n, 3)) * 0.1; a = np.tile([0.1, 0.2, 9.7], (n, 1)) + rng.normal(size=(n, 3)) * 0.05
    m = np.tile([20.0, 1.0, 40.0], (n, 1)) + rng.normal(size=(n, 3)) * 0.2
    B = ahrs.filters.EKF(gyr=g, acc=a, mag=m)
    S = ahrs.filters.EKF()
    q = B.Q[0]
    ok = True
    for t in range(1, n):
        q = S.update(q, g[t], a[t], m[t])
        ok &= bool(np.allclose(q, B.Q[t], atol=1e-12))
    c.goal('batch=streaming', ok)


NOT_COVERED = ["bit-identical repetition (follows from determinism of the NumPy primitives: assumption)",
               "UKF and EKF.MARG batch=streaming when their unit is listed as out of reach in the evidence",
               "FKF and Complementary have no update method (batch only): nothing to compare"]
