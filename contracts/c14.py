"""C14 -- WMM output equals the spherical-harmonic synthesis of the shipped coefficients.

Proved: geodetic -> geocentric conversion against the WGS84 closed form (symbolic).  Exhaustive-concrete: model/epoch
selection on the tenth-of-a-year grid 2015.0 .. 2030.0 and the coefficient tables against an independent parser.
BOUNDED (not counted as proved): the degree-12 synthesis itself against an independent Schmidt semi-normalised
evaluation on a stated grid -- the code's float constants (k[m,n], Schmidt factors) are rounded rationals, so the
identity only holds to rounding and is outside the exact real-arithmetic engine."""
import math, os
import numpy as np
from rvc.api import *

PI = math.pi


@contract('C14', 'geodetic2spherical', functions=['wmm.geodetic2spherical'])
def c_g2s(c):
    """r and the geocentric latitude against the WGS84 formulas: r^2 = rho^2 + z^2, sin(lat') = z/r, cos(lat') = rho/r >= 0"""
    f = c.ahrs.utils.wmm.geodetic2spherical
    lat = c.angle('lat', -PI / 2, PI / 2)
    lon = c.real('lon'); h = c.real('h')
    c.assume(And(ge(h, -1), le(h, 850)))
    a, b = c.real('a'), c.real('b')           # symbolic semi-axes (a >= b > 0): constants would be rounded floats
    c.assume(And(gt(b, 0), le(b, a), ge(a, 1000)))
    la, lo, r = f(lat, lon, h, a, b)
    cl, sl = c.cos(lat), c.sin(lat)
    e2 = (a * a - b * b) / (a * a)
    N = a / sqrtv(1 - e2 * sl * sl)
    rho = (N + h) * cl
    z = (N * (b * b) / (a * a) + h) * sl
    c.goal('lon-unchanged', eq(lo, lon))
    c.goal('r', And(eq(r * r, rho * rho + z * z), gt(r, 0)))
    c.goal('sin(lat_s)', eq(c.sin(la) * r, z))
    c.goal('cos(lat_s)', eq(c.cos(la) * r, rho))


def _spec_field(coefs, epoch, date, lat_deg, lon_deg, h_km):
    """independent evaluation (numpy only): Schmidt semi-normalised associated Legendre functions by the direct
    recursion on the semi-normalised functions themselves, secular variation, WGS84 geodetic -> geocentric"""
    a, b, Rm = 6378.137, 6356.7523142, 6371.2
    lat, lon = math.radians(lat_deg), math.radians(lon_deg)
    e2 = 1 - (b / a) ** 2
    N = a / math.sqrt(1 - e2 * math.sin(lat) ** 2)
    rho = (N + h_km) * math.cos(lat); z = (N * (1 - e2) + h_km) * math.sin(lat)
    r = math.hypot(rho, z); latp = math.asin(z / r)
    x, cth = math.sin(latp), math.cos(latp)
    nmax = 12
    P = np.zeros((nmax + 2, nmax + 2)); dP = np.zeros((nmax + 2, nmax + 2))      # P[n, m], d/dlat'
    P[0, 0] = 1.0
    for n in range(1, nmax + 1):
        for m in range(n + 1):
            if n == m:
                fac = math.sqrt(1 - 1 / (2.0 * n)) if n > 1 else 1.0
                P[n, n] = fac * cth * P[n - 1, n - 1]
                dP[n, n] = fac * (cth * dP[n - 1, n - 1] - x * P[n - 1, n - 1])
            else:
                k1 = (2 * n - 1) / math.sqrt(n * n - m * m)
                k2 = math.sqrt(((n - 1) ** 2 - m * m) / (n * n - m * m)) if n > 1 else 0.0
                P[n, m] = k1 * x * P[n - 1, m] - k2 * (P[n - 2, m] if n > 1 else 0.0)
                dP[n, m] = k1 * (x * dP[n - 1, m] + cth * P[n - 1, m]) - k2 * (dP[n - 2, m] if n > 1 else 0.0)
    dt = round(date, 1) - epoch
    Xp = Yp = Zp = 0.0
    for (n, m), (g, hh, gd, hd) in coefs.items():
        gt_, ht_ = g + dt * gd, hh + dt * hd
        arn = (Rm / r) ** (n + 2)
        cm, sm = math.cos(m * lon), math.sin(m * lon)
        Xp += -arn * (gt_ * cm + ht_ * sm) * dP[n, m]
        Yp += arn * m * (gt_ * sm - ht_ * cm) * P[n, m] / cth
        Zp += -(n + 1) * arn * (gt_ * cm + ht_ * sm) * P[n, m]
    d = latp - lat
    return Xp * math.cos(d) - Zp * math.sin(d), Yp, Xp * math.sin(d) + Zp * math.cos(d)


def _parse(path):
    """independent reader of a WMM.COF file"""
    out = {}; epoch = None
    for i, line in enumerate(open(path)):
        t = line.split()
        if i == 0:
            epoch = float(t[0]); continue
        if len(t) < 6 or t[0].startswith('9999'):
            continue
        out[(int(t[0]), int(t[1]))] = tuple(float(x) for x in t[2:6])
    return epoch, out


def _file_for(date):
    return 'WMM2015' if date < 2020.0 else ('WMM2020' if date < 2025.0 else 'WMM2025')


GRID = [dict(date=round(2015.0 + 0.1 * k, 1)) for k in range(0, 151)]


@contract('C14', 'epoch-selection+tables', concrete_points=GRID, functions=['WMM.reset_date', 'WMM.reset_coefficients',
                                                                            'WMM.load_coefficients', 'WMM.get_properties'])
def c_epoch(c):
    """exhaustive over the 151 grid dates (concrete, finite): the file whose five-year epoch contains the date is loaded,
    its epoch is used, and the coefficient tables equal an independent parse of that file"""
    import ahrs
    date = c.real('date')
    w = ahrs.utils.WMM.__new__(ahrs.utils.WMM)
    w.epoch = 2015
    w.reset_coefficients(date)
    want = _file_for(date)
    c.goal('file', w.wmm_filename == want + '/WMM.COF')
    path = os.path.join(os.path.dirname(ahrs.utils.wmm.__file__), want, 'WMM.COF')
    epoch, tab = _parse(path)
    c.goal('epoch', w.epoch == epoch)
    ok = True
    for (n, m), (g, h, gd, hd) in tab.items():
        ok &= (w.c[m, n] == g and w.cd[m, n] == gd)
        if m != 0:
            ok &= (w.c[n, m - 1] == h and w.cd[n, m - 1] == hd)
    c.goal('tables', ok and w.degree == 12 and len(tab) == 90)


SYN = [dict(date=d, lat=la, lon=lo, h=hh)
       for d in (2015.0, 2017.5, 2019.9, 2020.0, 2022.3, 2024.9, 2025.0, 2027.4, 2030.0)
       for la in (-90.0, -89.9, -75.0, -60.0, -45.0, -30.0, -15.0, -1e-6, 0.0, 10.0, 25.0, 40.0, 55.0, 70.0, 85.0, 89.9, 90.0)
       for lo in (-180.0, -135.0, -90.0, -45.0, 0.0, 30.0, 77.7, 120.0, 180.0)
       for hh in (-1.0, 0.0, 100.0, 850.0)]


@contract('C14', 'synthesis.bounded-grid', concrete_points=SYN, bounded='grid of 9 dates x 17 latitudes (both poles included) x 9 longitudes x 4 heights '
          '(5508 points); NOT a proof', functions=['WMM.magnetic_field', 'WMM.denormalize_coefficients'], tol=1e-6)
def c_synthesis(c):
    """BOUNDED stand-in: north/east/down components against the independent evaluation, to 1e-6 nT + 1e-9 relative"""
    import ahrs
    date, lat, lon, h = c.real('date'), c.real('lat'), c.real('lon'), c.real('h')
    w = ahrs.utils.WMM(date=date, latitude=lat, longitude=lon, height=h)
    path = os.path.join(os.path.dirname(ahrs.utils.wmm.__file__), _file_for(date), 'WMM.COF')
    epoch, tab = _parse(path)
    X, Y, Z = _spec_field(tab, epoch, date, lat, lon, h)
    for nm, got, ref in (('X', w.X, X), ('Y', w.Y, Y), ('Z', w.Z, Z)):
        c.goal(nm, abs(got - ref) <= 1e-6 + 1e-9 * abs(ref))


NOT_COVERED = ["the degree-12 synthesis as a for-all-inputs identity (only the bounded grid above): the code's recursion constants "
               "are rounded floats, so the identity with the exact Schmidt functions holds only to rounding",
               "the cos(lat') == 0 branch of the code is unreachable in floats (cos(pi/2) = 6e-17); the poles are grid points"]
