"""C03 -- every estimator returns valid attitudes, one per sample.

Step contracts: for each update/estimate entry point, on every path the result has the right shape and is a unit
quaternion (proper rotation / finite triple for the other representations).  Safety of the intermediate divisions
and square roots is claimed only for the units marked safety=True; for the others the poses where a formula is 0/0
are listed as known findings / exclusions (see EXCLUSIONS)."""
import numpy as np
from rvc.api import *

SIN1 = 0.0003046   # sin^2(1 degree)


def _sensors(c, mag=True):
    g = c.reals('g', 3); a = c.reals('a', 3)
    c.assume(ne(dot(a, a), 0)); c.assume(ne(dot(g, g), 0))
    m = None
    if mag:
        m = c.reals('m', 3)
        c.assume(ne(dot(m, m), 0))
        x = np.array([a[1] * m[2] - a[2] * m[1], a[2] * m[0] - a[0] * m[2], a[0] * m[1] - a[1] * m[0]])
        c.assume(ge(dot(x, x), SIN1 * dot(a, a) * dot(m, m)))      # acc and mag at least 1 degree from parallel
    return g, a, m


def _unit(c, q, name='q'):
    q = np.asarray(q)
    c.goal_shape(f'{name}.shape', q, (4,))
    if q.shape == (4,):
        c.goal(f'{name}.unit', eq(dot(q, q), 1))


def _proper(c, M, name='R'):
    M = np.asarray(M)
    c.goal_shape(f'{name}.shape', M, (3, 3))
    if M.shape == (3, 3):
        c.goal_eq(f'{name}.orthogonal', M @ M.T, c.arr(np.identity(3)))


F = lambda c: c.ahrs.filters

STEPS = {
    # name: (mag?, callable(c, q, g, a, m))
    'Madgwick.updateIMU': (False, lambda c, q, g, a, m: F(c).Madgwick().updateIMU(q, g, a)),
    'Madgwick.updateMARG': (True, lambda c, q, g, a, m: F(c).Madgwick().updateMARG(q, g, a, m)),
    'Mahony.updateIMU': (False, lambda c, q, g, a, m: F(c).Mahony().updateIMU(q, g, a)),
    'Mahony.updateMARG': (True, lambda c, q, g, a, m: F(c).Mahony().updateMARG(q, g, a, m)),
    'AngularRate.update.closed': (False, lambda c, q, g, a, m: F(c).AngularRate().update(q, g, 'closed')),
    'AngularRate.update.series3': (False, lambda c, q, g, a, m: F(c).AngularRate().update(q, g, 'series', 3)),
    'AQUA.updateIMU': (False, lambda c, q, g, a, m: F(c).AQUA().updateIMU(q, g, a)),
    'AQUA.updateMARG': (True, lambda c, q, g, a, m: F(c).AQUA().updateMARG(q, g, a, m)),
    'EKF.update.IMU': (False, lambda c, q, g, a, m: F(c).EKF().update(q, g, a)),
    'Fourati.update': (True, lambda c, q, g, a, m: F(c).Fourati().update(q, g, a, m)),
    'ROLEQ.update': (True, lambda c, q, g, a, m: F(c).ROLEQ().update(q, g, a, m)),
    'ROLEQ.attitude_propagation': (False, lambda c, q, g, a, m: F(c).ROLEQ().attitude_propagation(q, g, 0.01)),
}


@contract('C03', 'step', variants=[dict(f=k) for k in STEPS], optional=True, no_safety=True, feas_timeout_ms=1000,
          budget_s=300, max_paths=300, timeout_ms=30000, functions=sorted(STEPS))
def c_step(c):
    """recursive filter step from a unit prior: one unit quaternion out, on every path"""
    mag, fn = STEPS[c.p['f']]
    q = c.unit_quat('q')
    g, a, m = _sensors(c, mag)
    out = fn(c, q.copy(), g, a, m)
    _unit(c, out)


def _triad(c):
    """TRIAD with symbolic (non-parallel) reference vectors, so that its own normalisations are exact"""
    v1, v2 = c.reals('v1', 3), c.reals('v2', 3)
    c.assume(ne(dot(v1, v1), 0)); c.assume(ne(dot(v2, v2), 0))
    x = np.array([v1[1] * v2[2] - v1[2] * v2[1], v1[2] * v2[0] - v1[0] * v2[2], v1[0] * v2[1] - v1[1] * v2[0]])
    c.assume(ne(dot(x, x), 0))
    return F(c).TRIAD(v1=v1, v2=v2)


SINGLE = {
    'TRIAD.rotmat': lambda c, a, m: ('R', _triad(c).estimate(a, m, 'rotmat')),
    'TRIAD.quaternion': lambda c, a, m: ('q', _triad(c).estimate(a, m, 'quaternion')),
    'SAAM': lambda c, a, m: ('q', F(c).SAAM().estimate(a, m)),
    'FAMC': lambda c, a, m: ('q', F(c).FAMC().estimate(a, m)),
    'FQA': lambda c, a, m: ('q', F(c).FQA().estimate(a.copy(), m.copy())),
    'Tilt.quaternion': lambda c, a, m: ('q', F(c).Tilt().estimate(a, m, 'quaternion')),
    'Tilt.rotmat': lambda c, a, m: ('R', F(c).Tilt().estimate(a, m, 'rotmat')),
    'Tilt.acc-only': lambda c, a, m: ('q', F(c).Tilt().estimate(a, None, 'quaternion')),
    'AQUA.estimate': lambda c, a, m: ('q', F(c).AQUA().estimate(a, m)),
    'AQUA.estimate.acc-only': lambda c, a, m: ('q', F(c).AQUA().estimate(a)),
    'ecompass.ENU': lambda c, a, m: ('R', c.ahrs.common.orientation.ecompass(a, m, 'ENU', 'rotmat')),
    'ecompass.NED': lambda c, a, m: ('R', c.ahrs.common.orientation.ecompass(a, m, 'NED', 'rotmat')),
    'am2DCM': lambda c, a, m: ('R', c.ahrs.common.orientation.am2DCM(a, m)),
    'acc2q': lambda c, a, m: ('q', c.ahrs.common.orientation.acc2q(a)),
}


SLOW_SINGLE = ('TRIAD.rotmat', 'TRIAD.quaternion', 'FQA')


@contract('C03', 'single-frame', variants=[dict(f=k) for k in SINGLE if k not in SLOW_SINGLE], optional=True, no_safety=True, feas_timeout_ms=1000,
          budget_s=300, max_paths=400, timeout_ms=30000, functions=sorted(SINGLE))
def c_single(c):
    """single-frame estimators on arbitrary (not necessarily consistent) non-parallel samples: a unit quaternion /
    orthogonal matrix on every path"""
    _, a, m = _sensors(c, True)
    kind, out = SINGLE[c.p['f']](c, a, m)
    if kind == 'q':
        _unit(c, out)
    else:
        _proper(c, out)


@contract('C03', 'single-frame.thorough', variants=[dict(f=k) for k in SLOW_SINGLE], optional=True, no_safety=True, feas_timeout_ms=1000,
          budget_s=3000, max_paths=2000, thorough_only=True, functions=['TRIAD.estimate', 'FQA.estimate'])
def c_single_t(c):
    c_single(c)


@contract('C03', 'history', variants=[dict(f=k) for k in ('Madgwick', 'Mahony', 'AngularRate', 'AQUA')],
          no_crosscheck=True, functions=['*._compute_all'])
def c_history(c):
    """one attitude per sample for every N: the batch loop writes exactly rows 1..N-1 from the step function and row 0
    from the initial attitude (loop schema on the real AST, as in C06)"""
    import contracts.c06 as c06
    cls = getattr(c.ahrs.filters, c.p['f'])
    ok, why = c06._schema_ok(cls)
    c.note(f"{c.p['f']}: {why}")
    c.goal('one-row-per-sample', ok)


EXCLUSIONS = ["safety of intermediate divisions is NOT claimed here (no_safety): the exact poses where a published formula is 0/0 "
              "(Madgwick: vanishing gradient; SAAM/FAMC: level / x-up poses; AQUA: exactly inverted gravity) are outside the claim"]
NOT_COVERED = ["eig/iterative estimators (Davenport, QUEST, FLAE, OLEQ), UKF, FKF, Complementary: out of reach of the engine "
               "(np.linalg.eig on symbolic input / matrix sizes) -- FKF is known to return non-unit quaternions",
               "finiteness in the float sense (NaN/inf) beyond the exact real semantics"]
