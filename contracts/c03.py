"""C03 -- every estimator returns valid attitudes, one per sample.

Step contracts: for each update/estimate entry point, on every path the result has the right shape and is a unit
quaternion (proper rotation / finite triple for the other representations).  Safety of the intermediate divisions
and square roots is claimed only for the units marked safety=True; for the others the poses where a formula is 0/0
are listed as known findings / exclusions (see EXCLUSIONS)."""
import numpy as np
from rvc.api import *

SIN1 = 0.0003046   # sin^2(1 degree)


def _sensors(c, mag=True):
    g = c.reals('g', 3); a = c.reals('a', 3)
    c.assume(ne(dot(a, a), 0)); c.assume(ne(dot(g, g), 0))
    m = None
    if mag:
        m = c.reals('m', 3)
        c.assume(ne(dot(m, m), 0))
        x = np.array([a[1] * m[2] - a[2] * m[1], a[2] * m[0] - a[0] * m[2], a[0] * m[1] - a[1] * m[0]])
        c.assume(ge(dot(x, x), SIN1 * dot(a, a) * dot(m, m)))      # acc and mag at least 1 degree from parallel
    return g, a, m


def _unit(c, q, name='q'):
    q = np.asarray(q)
    c.goal_shape(f'{name}.shape', q, (4,))
    if q.shape == (4,):
        c.goal(f'{name}.unit', eq(dot(q, q), 1))


def _proper(c, M, name='R'):
    M = np.asarray(M)
    c.goal_shape(f'{name}.shape', M, (3, 3))
    if M.shape == (3, 3):
        c.goal_eq(f'{name}.orthogonal', M @ M.T, c.arr(np.identity(3)))


F = lambda c: c.ahrs.filters

STEPS = {
    # name: (mag?, callable(c, q, g, a, m))
    'Madgwick.updateIMU': (False, lambda c, q, g, a, m: F(c).Madgwick().updateIMU(q, g, a)),
    'Madgwick.updateMARG': (True, lambda c, q, g, a, m: F(c).Madgwick().updateMARG(q, g, a, m)),
    'Mahony.updateIMU': (False, lambda c, q, g, a, m: F(c).Mahony().updateIMU(q, g, a)),
    'Mahony.updateMARG': (True, lambda c, q, g, a, m: F(c).Mahony().updateMARG(q, g, a, m)),
    'AngularRate.update.closed': (False, lambda c, q, g, a, m: F(c).AngularRate().update(q, g, 'closed')),
    'AngularRate.update.series3': (False, lambda c, q, g, a, m: F(c).AngularRate().update(q, g, 'series', 3)),
    'AQUA.updateIMU': (False, lambda c, q, g, a, m: F(c).AQUA().updateIMU(q, g, a)),
    'AQUA.updateMARG': (True, lambda c, q, g, a, m: F(c).AQUA().updateMARG(q, g, a, m)),
    'EKF.update.IMU': (False, lambda c, q, g, a, m: F(c).EKF().update(q, g, a)),
    'Fourati.update': (True, lambda c, q, g, a, m: F(c).Fourati().update(q, g, a, m)),
    'ROLEQ.update': (True, lambda c, q, g, a, m: F(c).ROLEQ().update(q, g, a, m)),
    'ROLEQ.attitude_propagation': (False, lambda c, q, g, a, m: F(c).ROLEQ().attitude_propagation(q, g, 0.01)),
}


@contract('C03', 'step', variants=[dict(f=k) for k in STEPS], optional=True, no_safety=True, feas_timeout_ms=1000,
          budget_s=300, max_paths=300, timeout_ms=30000, functions=sorted(STEPS))
def c_step(c):
    """recursive filter step from a unit prior: one unit quaternion out, on every path"""
    mag, fn = STEPS[c.p['f']]
    q = c.unit_quat('q')
    g, a, m = _sensors(c, mag)
    out = fn(c, q.copy(), g, a, m)
    _unit(c, out)


def _triad(c):
    """TRIAD with symbolic (non-parallel) reference vectors, so that its own normalisations are exact"""
    v1, v2 = c.reals('v1', 3), c.reals('v2', 3)
    c.assume(ne(dot(v1, v1), 0)); c.assume(ne(dot(v2, v2), 0))
    x = np.array([v1[1] * v2[2] - v1[2] * v2[1], v1[2] * v2[0] - v1[0] * v2[2], v1[0] * v2[1] - v1[1] * v2[0]])
    c.assume(ne(dot(x, x), 0))
    return F(c).TRIAD(v1=v1, v2=v2)


SINGLE = {
    'TRIAD.rotmat': lambda c, a, m: ('R', _triad(c).estimate(a, m, 'rotmat')),
    'TRIAD.quaternion': lambda c, a, m: ('q', _triad(c).estimate(a, m, 'quaternion')),
    'SAAM': lambda c, a, m: ('q', F(c).SAAM().estimate(a, m)),
    'FAMC': lambda c, a, m: ('q', F(c).FAMC().estimate(a, m)),
    'FQA': lambda c, a, m: ('q', F(c).FQA().estimate(a.copy(), m.copy())),
    'Tilt.quaternion': lambda c, a, m: ('q', F(c).Tilt().estimate(a, m, 'quaternion')),
    'Tilt.rotmat': lambda c, a, m: ('R', F(c).Tilt().estimate(a, m, 'rotmat')),
    'Tilt.acc-only': lambda c, a, m: ('q', F(c).Tilt().estimate(a, None, 'quaternion')),
    'AQUA.estimate': lambda c, a, m: ('q', F(c).AQUA().estimate(a, m)),
    'AQUA.estimate.acc-only': lambda c, a, m: ('q', F(c).AQUA().estimate(a)),
    'ecompass.ENU': lambda c, a, m: ('R', c.ahrs.common.orientation.ecompass(a, m, 'ENU', 'rotmat')),
    'ecompass.NED': lambda c, a, m: ('R', c.ahrs.common.orientation.ecompass(a, m, 'NED', 'rotmat')),
    'am2DCM': lambda c, a, m: ('R', c.ahrs.common.orientation.am2DCM(a, m)),
    'acc2q': lambda c, a, m: ('q', c.ahrs.common.orientation.acc2q(a)),
}


SLOW_SINGLE = ('TRIAD.rotmat', 'TRIAD.quaternion', 'FQA')


@contract('C03', 'single-frame', variants=[dict(f=k) for k in SINGLE if k not in SLOW_SINGLE], optional=True, no_safety=True, feas_timeout_ms=1000,
          budget_s=300, max_paths=400, timeout_ms=30000, functions=sorted(SINGLE))
def c_single(c):
    """single-frame estimators on arbitrary (not necessarily consistent) non-parallel samples: a unit quaternion /
    orthogonal matrix on every path"""
    _, a, m = _sensors(c, True)
    kind, out = SINGLE[c.p['f']](c, a, m)
    if kind == 'q':
        _unit(c, out)
    else:
        _proper(c, out)


@contract('C03', 'single-frame.thorough', variants=[dict(f=k) for k in SLOW_SINGLE], optional=True, no_safety=True, feas_timeout_ms=1000,
          budget_s=3000, max_paths=2000, thorough_only=True, functions=['TRIAD.estimate', 'FQA.estimate'])
def c_single_t(c):
    c_single(c)


@contract('C03', 'history', variants=[dict(f=k) for k in ('Madgwick', 'Mahony', 'AngularRate', 'AQUA')],
          no_crosscheck=True, functions=['*._compute_all'])
def c_history(c):
    """one attitude per sample for every N: the batch loop writes exactly rows 1..N-1 from the step function and row 0
    from the initial attitude (loop schema on the real AST, as in C06)"""
    import contracts.c06 as c06
    cls = getattr(c.ahrs.filters, c.p['f'])
    ok, why = c06._schema_ok(cls)
    c.note(f"{c.p['f']}: {why}")
    c.goal('one-row-per-sample', ok)


EXCLUSIONS = ["safety of intermediate divisions is NOT claimed here (no_safety): the exact poses where a published formula is 0/0 "
              "(Madgwick: vanishing gradient; SAAM/FAMC: level / x-up poses; AQUA: exactly inverted gravity) are outside the claim"]
NOT_COVERED = ["eig/iterative estimators (Davenport, QUEST, FLAE, OLEQ), UKF, FKF, Complementary: out of reach of the engine "
               "(np.linalg.eig on symbolic input / matrix sizes) -- FKF is known to return non-unit quaternions",
               "finiteness in the float sense (NaN/inf) beyond the exact real semantics"]


def _hist_points():
    return [dict(n=float(n), seed=float(s)) for n in (1, 2, 3, 7) for s in (1, 2)]


OUT_OF_REACH = {
    'Davenport': lambda ah, g, a, m: ah.filters.Davenport(acc=a, mag=m).Q,
    'QUEST': lambda ah, g, a, m: ah.filters.QUEST(acc=a, mag=m).Q,
    'FLAE.symbolic': lambda ah, g, a, m: ah.filters.FLAE(acc=a, mag=m, method='symbolic').Q,
    'FLAE.eig': lambda ah, g, a, m: ah.filters.FLAE(acc=a, mag=m, method='eig').Q,
    'FLAE.newton': lambda ah, g, a, m: ah.filters.FLAE(acc=a, mag=m, method='newton').Q,
    'OLEQ': lambda ah, g, a, m: ah.filters.OLEQ(acc=a, mag=m).Q,
    'Complementary': lambda ah, g, a, m: ah.filters.Complementary(gyr=g, acc=a, mag=m).Q,
    'FAMC': lambda ah, g, a, m: ah.filters.FAMC(acc=a, mag=m).Q,
    'FQA': lambda ah, g, a, m: ah.filters.FQA(acc=a, mag=m).Q,
    'SAAM': lambda ah, g, a, m: ah.filters.SAAM(acc=a, mag=m).Q,
}


@contract('C03', 'one-per-sample.concrete', variants=[dict(f=k) for k in OUT_OF_REACH], concrete_points=_hist_points(),
          functions=sorted(OUT_OF_REACH))
def c_count(c):
    """concrete canonical histories (not a proof) for estimators whose N-sample path is out of symbolic reach: histories of
    1, 2, 3 and 7 samples give exactly one real unit quaternion per sample"""
    import ahrs, warnings
    warnings.filterwarnings('ignore')
    n = int(c.real('n'))
    rng = np.random.default_rng(int(c.real('seed')))
    g = rng.normal(size=(n, 3)) * 0.2
    a = np.tile([0.3, -0.2, 9.7], (n, 1)) + rng.normal(size=(n, 3)) * 0.3
    m = np.tile([21.0, 1.5, 42.0], (n, 1)) + rng.normal(size=(n, 3)) * 0.5
    if n == 1 and c.p['f'] != 'Complementary':
        g, a, m = g[0], a[0], m[0]
    if n == 1 and c.p['f'] == 'Complementary':
        return
    Q = np.asarray(OUT_OF_REACH[c.p['f']](ahrs, g, a, m))
    c.goal('real', not np.iscomplexobj(Q) or bool(np.allclose(np.imag(Q), 0)))
    Q = np.real(Q)
    c.goal('shape', Q.shape == ((4,) if n == 1 else (n, 4)))
    c.goal('unit', bool(np.allclose(np.linalg.norm(np.atleast_2d(Q), axis=1), 1.0, atol=1e-9)))


def _canon_points():
    pts = []
    for k in range(13):
        pts.append(dict(pose=float(k)))
    return pts


def _canon(k):
    g = 9.81
    if k < 8:
        hr = np.radians(45.0 * k)
        # exact cardinal headings: sin(pi) in floats is 1.2e-16, which would put "exactly south" on one side of a sign test
        ch, sh = {0: (1.0, 0.0), 2: (0.0, 1.0), 4: (-1.0, 0.0), 6: (0.0, -1.0)}.get(k, (np.cos(hr), np.sin(hr)))
        return [0, 0, g], [20 * ch, -20 * sh + 0.0, 40]
    if k == 8:
        return [0, 0, -g], [20, 3, -40]
    a = {9: [g, 0, 0], 10: [-g, 0, 0], 11: [0, g, 0], 12: [0, -g, 0]}[k]
    return a, ([5, 20, 30] if k in (9, 10) else [20, 5, 30])


CANON = {
    'FAMC': lambda ah, a, m: ah.filters.FAMC().estimate(a, m),
    'FQA': lambda ah, a, m: ah.filters.FQA().estimate(a.copy(), m.copy()),
    'Tilt': lambda ah, a, m: ah.filters.Tilt().estimate(a, m),
    'AQUA': lambda ah, a, m: ah.filters.AQUA().estimate(a, m),
    'TRIAD': lambda ah, a, m: ah.filters.TRIAD().estimate(a, m, 'quaternion'),
    'Davenport': lambda ah, a, m: np.real(ah.filters.Davenport().estimate(a, m)),
    'QUEST': lambda ah, a, m: ah.filters.QUEST().estimate(a, m),
    'FLAE.eig': lambda ah, a, m: np.real(ah.filters.FLAE(method='eig').estimate(a, m, method='eig')),
    'FLAE.symbolic': lambda ah, a, m: np.real(ah.filters.FLAE().estimate(a, m)),
    'OLEQ': lambda ah, a, m: ah.filters.OLEQ().estimate(a, m),
    'ecompass': lambda ah, a, m: ah.common.orientation.ecompass(a, m, 'NED', 'quaternion'),
    'Madgwick.MARG': lambda ah, a, m: ah.filters.Madgwick().updateMARG(np.array([1., 0, 0, 0]), np.array([0.01, 0.02, 0.03]), a, m),
    'Mahony.MARG': lambda ah, a, m: ah.filters.Mahony().updateMARG(np.array([1., 0, 0, 0]), np.array([0.01, 0.02, 0.03]), a, m),
}


def _canon_body(c, table):
    import ahrs, warnings
    warnings.filterwarnings('ignore')
    a, m = _canon(int(c.real('pose')))
    q = np.asarray(table[c.p['f']](ahrs, np.array(a, float), np.array(m, float)), float)
    c.goal('shape', q.shape == (4,))
    c.goal('finite', bool(np.all(np.isfinite(q))))
    c.goal('unit', bool(q.shape == (4,) and abs(np.linalg.norm(q) - 1.0) <= 1e-9))


@contract('C03', 'canonical-poses.concrete', variants=[dict(f=k) for k in CANON], concrete_points=_canon_points(), functions=sorted(CANON))
def c_canon(c):
    """the property's exact canonical poses (level at 8 headings, upside-down, x/y axis up and down), executed concretely (not a
    proof): one finite unit quaternion each"""
    _canon_body(c, CANON)


@contract('C03', 'canonical-poses.concrete.SAAM', variants=[dict(f='SAAM')], concrete_points=_canon_points(),
          known_finding='KF-C03-SAAM-level', functions=['SAAM.estimate'])
def c_canon_saam(c):
    """SAAM at the canonical poses: NaN at every exactly level pose is the recorded known finding KF-C03-SAAM-level"""
    _canon_body(c, {'SAAM': lambda ah, a, m: ah.filters.SAAM().estimate(a, m)})


@contract('C03', 'AQUA.estimate.safe', optional=True, thorough_only=True, feas_timeout_ms=1500, budget_s=1500, max_paths=200, timeout_ms=30000,
          functions=['AQUA.estimate'])
def c_aqua_safe(c):
    """AQUA's algebraic fix (acc + mag): with the safety clause ON -- each of its two-branch formulas is only evaluated on
    the side where its denominator cannot vanish, so every division and square root is safe for all non-parallel samples"""
    _, a, m = _sensors(c, True)
    out = c.ahrs.filters.AQUA().estimate(a, m)
    _unit(c, out)
