"""C17 -- coordinate-frame transformations are mutually inverse rigid maps."""
import math
import numpy as np
from rvc.api import *

PI = math.pi


def _origin(c):
    lat = c.angle_deg('lat', -PI / 2, PI / 2, lo_strict=False, hi_strict=False)
    lon = c.angle_deg('lon', -PI, PI, lo_strict=False, hi_strict=False)
    h = c.real('h')
    c.assume(And(ge(h, -1e4), le(h, 1e6)))
    return lat, lon, h


@contract('C17', 'ecef-enu-ecef', functions=['frames.ecef2enu', 'frames.enu2ecef', 'frames.ecef2enuv', 'frames.enu2uvw',
                                             'frames.geodetic2ecef'])
def c_ecef_enu(c):
    """ECEF -> ENU -> ECEF is the identity; the map is an isometry and sends the origin to zero"""
    fr = c.ahrs.common.frames
    lat, lon, h = _origin(c)
    P = c.reals('P', 3); Q = c.reals('Q', 3)
    e = fr.ecef2enu(P[0], P[1], P[2], lat, lon, h)
    back = fr.enu2ecef(e[0], e[1], e[2], lat, lon, h)
    c.goal_eq('enu2ecef(ecef2enu(P))=P', back, P)
    e2 = fr.ecef2enu(Q[0], Q[1], Q[2], lat, lon, h)
    d1 = e - e2; d0 = P - Q
    c.goal('isometry', eq(dot(d1, d1), dot(d0, d0)))
    O = fr.geodetic2ecef(lat, lon, h)
    z = fr.ecef2enu(O[0], O[1], O[2], lat, lon, h)
    c.goal_eq('origin->0', z, c.arr([0.0, 0.0, 0.0]))
    c.observe('e', e)


@contract('C17', 'enu-ecef-enu', functions=['frames.ecef2enu', 'frames.enu2ecef'])
def c_enu_ecef(c):
    fr = c.ahrs.common.frames
    lat, lon, h = _origin(c)
    E_ = c.reals('E', 3)
    X = fr.enu2ecef(E_[0], E_[1], E_[2], lat, lon, h)
    back = fr.ecef2enu(X[0], X[1], X[2], lat, lon, h)
    c.goal_eq('ecef2enu(enu2ecef(E))=E', back, E_)


@contract('C17', 'enu2uvw/ecef2enuv', variants=[dict(unit='deg'), dict(unit='rad')],
          functions=['frames.enu2uvw', 'frames.ecef2enuv'])
def c_uvw(c):
    fr = c.ahrs.common.frames
    if c.p['unit'] == 'deg':
        lat = c.angle_deg('lat', -PI / 2, PI / 2, lo_strict=False, hi_strict=False)
        lon = c.angle_deg('lon', -PI, PI, lo_strict=False, hi_strict=False)
    else:
        lat = c.angle('lat', -PI / 2, PI / 2, lo_strict=False, hi_strict=False)
        lon = c.angle('lon', -PI, PI, lo_strict=False, hi_strict=False)
    E_ = c.reals('E', 3)
    uvw = fr.enu2uvw(E_[0], E_[1], E_[2], lat, lon, c.p['unit'])
    c.goal('rigid', eq(dot(uvw, uvw), dot(E_, E_)))
    if c.p['unit'] == 'deg':
        back = fr.ecef2enuv(uvw[0], uvw[1], uvw[2], 0.0, 0.0, 0.0, lat, lon)
        c.goal_eq('inverse', back, E_)
    c.observe('uvw', uvw)


@contract('C17', 'aer', variants=[dict(deg=True), dict(deg=False)], functions=['frames.aer2enu', 'frames.enu2aer'])
def c_aer(c):
    """ENU -> AER -> ENU and AER -> ENU -> AER for range > 0, elevation strictly inside (-90, 90) degrees"""
    fr = c.ahrs.common.frames
    deg = c.p['deg']
    mk = c.angle_deg if deg else c.angle
    az = mk('az', 0.0, 2 * PI, lo_strict=False)
    el = mk('el', -PI / 2, PI / 2)
    r = c.real('r')
    c.assume(gt(r, 0))
    enu = fr.aer2enu(az, el, r, deg=deg)
    c.goal('range', eq(dot(enu, enu), r * r))
    out = fr.enu2aer(enu[0], enu[1], enu[2], deg=False)
    c.goal('slant-range', eq(out[2], r))
    az_r = c.angles['az']; el_r = c.angles['el']
    c.goal('elevation.sin', eq(c.sin(out[1]), c.sin(el_r)))
    c.goal('elevation.cos', eq(c.cos(out[1]), c.cos(el_r)))
    c.goal('azimuth.sin', eq(c.sin(out[0]), c.sin(az_r)))
    c.goal('azimuth.cos', eq(c.cos(out[0]), c.cos(az_r)))
    c.goal('azimuth.range', And(ge(out[0], 0), lt(out[0], 2 * PI_)))
    back = fr.aer2enu(out[0], out[1], out[2], deg=False)
    c.goal_eq('aer2enu(enu2aer(x))=x', back, enu)


@contract('C17', 'dca', variants=[dict(deg=True), dict(deg=False)], functions=['frames.enu2dca', 'frames.dca2enu'])
def c_dca(c):
    fr = c.ahrs.common.frames
    deg = c.p['deg']
    ang = (c.angle_deg if deg else c.angle)('g', -PI, PI, lo_strict=False, hi_strict=False)
    E_ = c.reals('E', 3)
    d = fr.enu2dca(E_[0], E_[1], E_[2], ang, deg=deg)
    back = fr.dca2enu(d[0], d[1], d[2], ang, deg=deg)
    c.goal_eq('dca2enu(enu2dca(E))=E', back, E_)
    d2 = fr.dca2enu(E_[0], E_[1], E_[2], ang, deg=deg)
    back2 = fr.enu2dca(d2[0], d2[1], d2[2], ang, deg=deg)
    c.goal_eq('enu2dca(dca2enu(D))=D', back2, E_)
    c.goal('rigid', eq(dot(d, d), dot(E_, E_)))


@contract('C17', 'ned-enu', variants=[dict(shape='1d'), dict(shape='2d')], functions=['frames.ned2enu', 'frames.enu2ned',
                                                                                      'frames._ltp_transformation'])
def c_ned(c):
    fr = c.ahrs.common.frames
    x = c.reals('x', 3) if c.p['shape'] == '1d' else c.reals('x', (2, 3))
    y = fr.ned2enu(c.track('x', x))
    c.goal_eq('enu2ned(ned2enu(x))=x', fr.enu2ned(y), x)
    c.goal_eq('ned2enu(enu2ned(x))=x', fr.ned2enu(fr.enu2ned(x)), x)
    if c.p['shape'] == '1d':
        c.goal_eq('swap-north-east,negate-down', y, np.array([x[1], x[0], -x[2]]))


@contract('C17', 'llf', functions=['frames.llf2ecef', 'frames.ecef2llf'])
def c_llf(c):
    fr = c.ahrs.common.frames
    lat = c.angle('lat', -PI / 2, PI / 2, lo_strict=False, hi_strict=False)
    lon = c.angle('lon', -PI, PI, lo_strict=False, hi_strict=False)
    A = fr.llf2ecef(lat, lon); B = fr.ecef2llf(lat, lon)
    c.goal_eq('transpose', A, B.T)
    c.goal_eq('orthogonal', A @ A.T, c.arr(np.identity(3)))
    c.goal_eq('inverse', A @ B, c.arr(np.identity(3)))


@contract('C17', 'geodetic2ecef', functions=['frames.geodetic2ecef'])
def c_g2e(c):
    """geodetic2ecef against the WGS84 closed form (prime-vertical radius N = a^2/sqrt(a^2 cos^2 + b^2 sin^2))"""
    fr = c.ahrs.common.frames
    lat, lon, h = _origin(c)
    a = c.real('a'); b = c.real('b')
    c.assume(And(gt(a, 0), gt(b, 0), le(b, a)))
    X = fr.geodetic2ecef(lat, lon, h, a, b)
    la, lo = c.angles['lat'], c.angles['lon']
    cl, sl, co, so = c.cos(la), c.sin(la), c.cos(lo), c.sin(lo)
    den = sqrtv(a * a * cl * cl + b * b * sl * sl)
    N = a * a / den
    c.goal('x', eq(X[0], (N + h) * cl * co))
    c.goal('y', eq(X[1], (N + h) * cl * so))
    c.goal('z', eq(X[2], (b * b / (a * a) * N + h) * sl))
    c.observe('X', X)


GRID = [dict(lat=la, lon=lo, h=hh) for la in (-90.0, -89.9, -45.0, -1e-9, 0.0, 30.0, 89.999, 90.0)
        for lo in (-180.0, -90.0, 0.0, 12.5, 180.0) for hh in (-1e4, 0.0, 1e3, 1e6)]


@contract('C17', 'geodetic-roundtrip.grid', concrete_points=[{'lat': g['lat'], 'lon': g['lon'], 'h': g['h']} for g in GRID],
          functions=['frames.ecef2geodetic', 'frames.geodetic2ecef'], tol=1e-6)
def c_roundtrip_points(c):
    """concrete canonical points (NOT a proof): geodetic -> ECEF -> geodetic on a grid including both poles"""
    fr = c.ahrs.common.frames
    lat, lon, h = c.real('lat'), c.real('lon'), c.real('h')
    X = fr.geodetic2ecef(lat, lon, h)
    out = fr.ecef2geodetic(X[0], X[1], X[2])
    c.goal('lat', abs(out[0] - lat) <= 1e-7)
    if abs(lat) < 90.0:
        c.goal('lon', abs(((out[1] - lon + 180.0) % 360.0) - 180.0) <= 1e-7)
    c.goal('h', abs(out[2] - h) <= 1e-3)


NOT_COVERED = ["ecef2geodetic: convergence of the latitude iteration (while loop with a symbolic guard: no inductive invariant "
               "within reach); the geodetic -> ECEF -> geodetic round trip is only checked on a concrete grid incl. both poles (labelled concrete)",
               "exact poles x = y = 0 handed directly to ecef2geodetic (h = p/cos(lat) - N is 0/0 over the reals)"]
