"""C16 -- ellipsoid gravity model: defining identities, Pizzetti's theorem, latitude symmetry, height decrease."""
import math
import numpy as np
from rvc.api import *


def _ellipsoid(c, f_zero=False):
    a, GM, w = c.real('a'), c.real('GM'), c.real('w')
    c.assume(And(gt(a, 0), gt(GM, 0), gt(w, 0)))
    if f_zero:
        f = 0.0
    else:
        f = c.real('f')
        c.assume(And(gt(f, 0), le(f, 0.2)))
    return a, f, GM, w, c.ahrs.utils.ReferenceEllipsoid(a, f, GM, w)


@contract('C16', 'derived-constants', variants=[dict(cls='ReferenceEllipsoid'), dict(cls='WGS')],
          functions=['ReferenceEllipsoid.__init__', 'ReferenceEllipsoid.first_eccentricity_squared',
                     'ReferenceEllipsoid.second_eccentricity_squared', 'ReferenceEllipsoid.linear_eccentricity',
                     'ReferenceEllipsoid.aspect_ratio', 'ReferenceEllipsoid.normal_gravity_constant', 'WGS.__init__'])
def c_consts(c):
    a, f, GM, w, _ = _ellipsoid(c)
    E_ = c.ahrs.utils.ReferenceEllipsoid(a, f, GM, w) if c.p['cls'] == 'ReferenceEllipsoid' else c.ahrs.utils.WGS(a, f, GM, w)
    b = E_.b
    c.goal('b=a(1-f)', eq(b, a * (1 - f)))
    c.goal('e^2=(a^2-b^2)/a^2', eq(E_.first_eccentricity_squared * a * a, a * a - b * b))
    c.goal("e'^2=(a^2-b^2)/b^2", eq(E_.second_eccentricity_squared * b * b, a * a - b * b))
    le_ = E_.linear_eccentricity
    c.goal('E^2=a^2-b^2', And(eq(le_ * le_, a * a - b * b), ge(le_, 0)))
    c.goal('aspect', eq(E_.aspect_ratio * a, b))
    c.goal('m', eq(E_.normal_gravity_constant * GM, w * w * a * a * b))
    c.observe('e2', E_.first_eccentricity_squared)


@contract('C16', 'pizzetti', functions=['ReferenceEllipsoid.equatorial_normal_gravity', 'ReferenceEllipsoid.polar_normal_gravity'])
def c_pizzetti(c):
    """2 ge/a + gp/b = 3GM/(a^2 b) - 2 w^2  (f in (0, 0.2]); uses AT1 only for q0 != 0"""
    a, f, GM, w, E_ = _ellipsoid(c)
    ge, gp = E_.equatorial_normal_gravity, E_.polar_normal_gravity
    b = E_.b
    c.goal('pizzetti', eq((2 * ge / a + gp / b) * (a * a * b), 3 * GM - 2 * w * w * a * a * b))
    # (no observed values: the model's arctan is only constrained by AT1, so numbers differ from CPython's)


@contract('C16', 'pizzetti.f=0', functions=['ReferenceEllipsoid.equatorial_normal_gravity', 'ReferenceEllipsoid.polar_normal_gravity'])
def c_pizzetti0(c):
    """flattening exactly zero: the sphere branch satisfies the same theorem and the rotating-sphere values"""
    a, f, GM, w, E_ = _ellipsoid(c, f_zero=True)
    c.assume(lt(w * w * a * a * a, 0.05 * GM))          # m < 0.05 (the property's domain)
    ge, gp = E_.equatorial_normal_gravity, E_.polar_normal_gravity
    c.goal('pizzetti', eq((2 * ge / a + gp / a) * (a * a * a), 3 * GM - 2 * w * w * a * a * a))
    c.goal('ge=GM/a^2-1.5 w^2 a', eq(ge * a * a, GM - 1.5 * w * w * a * a * a))
    c.goal('gp=GM/a^2+w^2 a', eq(gp * a * a, GM + w * w * a * a * a))
    g45 = E_.normal_gravity(45.0)
    c.goal('normal_gravity-between', Or(And(le(ge, g45), le(g45, gp)), And(le(gp, g45), le(g45, ge))))
    c.observe('ge', ge)


@contract('C16', 'normal_gravity', functions=['ReferenceEllipsoid.normal_gravity'])
def c_normal(c):
    """even in latitude; = ge at the equator, = gp at the poles; strictly decreasing with height on [0, 0.005 a]"""
    a, f, GM, w, E_ = _ellipsoid(c)
    g_e, g_p = E_.equatorial_normal_gravity, E_.polar_normal_gravity
    c.assume(gt(g_e, 0)); c.assume(gt(g_p, 0))       # positivity needs enclosures of arctan: assumed, see NOT_COVERED
    lat = c.angle_deg('lat', -math.pi / 2, math.pi / 2, lo_strict=False, hi_strict=False)
    g1 = E_.normal_gravity(lat)
    g2 = E_.normal_gravity(-lat)
    c.goal('even', eq(g1, g2))
    c.goal('equator', eq(E_.normal_gravity(0.0), g_e))
    c.goal('north-pole', eq(E_.normal_gravity(90.0), g_p))
    c.goal('south-pole', eq(E_.normal_gravity(-90.0), g_p))
    h1, h2 = c.real('h1'), c.real('h2')
    c.assume(And(ge(h1, 0), lt(h1, h2), le(h2, 0.005 * a)))
    m = E_.normal_gravity_constant
    c.assume(lt(m, 0.05))
    c.lemma('g0>0', gt(g1, 0))
    gh1 = E_.normal_gravity(lat, h1)
    gh2 = E_.normal_gravity(lat, h2)
    c.goal('decreasing-in-h', lt(gh2, gh1))


@contract('C16', 'series-gravity', variants=[dict(f='international', epoch=e) for e in ('1930', '1948', '1967', '1980', '1984')] +
          [dict(f='welmec', epoch='-')], functions=['wgs84.international_gravity', 'wgs84.welmec_gravity'])
def c_series(c):
    wg = c.ahrs.utils.wgs84
    lat = c.angle_deg('lat', -math.pi / 2, math.pi / 2, lo_strict=False, hi_strict=False)
    if c.p['f'] == 'international':
        g = lambda x: wg.international_gravity(x, c.p['epoch'])
    else:
        g = lambda x: wg.welmec_gravity(x, 0.0)
    c.goal('even', eq(g(lat), g(-lat)))
    c.goal('positive', gt(g(lat), 0))


NOT_COVERED = ["positivity of ge, gp and continuity as f -> 0 (needs enclosures of arctan; positivity is an assumption of the "
               "normal_gravity unit)", "float cancellation for tiny f (f = 1e-8 yields inf in floats; outside the property's f range)",
               "the planetary constants table (concrete values; not symbolic)"]
ASSUMPTIONS = ["AT1: 3y/(3+y^2) < arctan y < y for y > 0 (used only to show q0 != 0)"]
