"""C09 -- Hamilton algebra laws on the real Quaternion class and the orientation free functions."""
import numpy as np
from rvc.api import *


def _Q(c, v, versor=True, order='H'):
    return c.ahrs.common.quaternion.Quaternion(v, versor=versor, order=order)


@contract('C09', 'product.associative+norm+conj')
def c_assoc(c):
    """(pq)r = p(qr); |pq|^2=|p|^2|q|^2; (pq)* = q* p*  -- non-normalised quaternions through the real class"""
    p, q, r = c.reals('p', 4), c.reals('q', 4), c.reals('r', 4)
    for v in (p, q, r):
        c.assume(ne(dot(v, v), 0))
    P, Q, R = _Q(c, p, False), _Q(c, q, False), _Q(c, r, False)
    c.goal_eq('stored.p', P.A, p)
    pq = P.product(Q)
    qr = Q.product(R)
    lhs = _Q(c, pq, False).product(R)
    rhs = P.product(qr)
    c.goal_eq('assoc', lhs, rhs)
    c.goal('norm-multiplicative', eq(dot(pq, pq), dot(p, p) * dot(q, q)))
    pqc = _Q(c, pq, False).conjugate
    c.goal_eq('conj-reverses', pqc, _Q(c, Q.conjugate, False).product(P.conjugate))
    c.goal_eq('product=spec', pq, qmul(p, q))
    c.observe('pq', pq)


@contract('C09', 'inverse', variants=[dict(versor=True), dict(versor=False)],
          functions=['Quaternion.inverse', 'Quaternion.inv', 'Quaternion.is_versor', 'Quaternion.conjugate'])
def c_inverse(c):
    """q^-1 q = q q^-1 = 1 for every non-zero q, stored as versor or not"""
    q = c.reals('q', 4)
    c.assume(ne(dot(q, q), 0))
    Q = _Q(c, q, c.p['versor'])
    a = Q.A
    n2 = dot(a, a)
    # the real code treats |norm-1| <= 1e-8+1e-5 as "versor" and returns the conjugate there
    n = sqrtv(n2)
    nonversor = gt(absv(n - 1), 1e-8 + 1e-5)
    c.known_region('KF-C09-inverse-nonversor', nonversor)
    qi = Q.inverse
    c.goal_eq('inv=inverse', Q.inv, qi)
    left = _Q(c, qi, False).product(a)
    right = Q.product(qi)
    for nm, pr in (('left', left), ('right', right)):
        for k in (1, 2, 3):
            c.goal(f'{nm}[{k}]', eq(pr[k], 0))
        # exact where the exact formula is used, within the code's own is_versor tolerance elsewhere
        c.goal(f'{nm}[0]', And(le(pr[0], 1 + 3e-5), ge(pr[0], 1 - 3e-5)))
        c.goal(f'{nm}[0].exact-for-unit', Implies(eq(n2, 1), eq(pr[0], 1)))
    c.observe('inverse', qi)


@contract('C09', 'mult_L/mult_R', functions=['Quaternion.mult_L', 'Quaternion.mult_R', 'Quaternion.product'])
def c_mult(c):
    p, q = c.reals('p', 4), c.reals('q', 4)
    c.assume(ne(dot(p, p), 0)); c.assume(ne(dot(q, q), 0))
    P, Q = _Q(c, p, False), _Q(c, q, False)
    pq = P.product(q)
    c.goal_eq('L(p)q=pq', P.mult_L() @ q, pq)
    c.goal_eq('R(q)p=pq', Q.mult_R() @ p, pq)
    c.goal_eq('pq=spec', pq, qmul(p, q))
    c.observe('Lp', P.mult_L()); c.observe('Rq', Q.mult_R())


@contract('C09', 'entry-points-agree', variants=[dict(versor=True), dict(versor=False)],
          functions=['Quaternion.__mul__', 'Quaternion.__matmul__', 'Quaternion.product', 'orientation.q_prod'])
def c_entry(c):
    p, q = c.reals('p', 4), c.reals('q', 4)
    c.assume(ne(dot(p, p), 0)); c.assume(ne(dot(q, q), 0))
    P, Q = _Q(c, p, c.p['versor']), _Q(c, q, c.p['versor'])
    ref = qmul(P.A, Q.A)
    c.goal_eq('product', P.product(Q), ref)
    c.goal_eq('mul', P * Q, ref)
    c.goal_eq('matmul', P @ Q, ref)
    c.goal_eq('q_prod', c.ahrs.common.orientation.q_prod(P.A, Q.A), ref)
    c.goal_eq('mul-array-arg', P * Q.A, ref)
    c.observe('mul', P * Q)


@contract('C09', 'scalar-last', variants=[dict(versor=True), dict(versor=False)],
          functions=['Quaternion.w', 'Quaternion.x', 'Quaternion.y', 'Quaternion.z', 'Quaternion.v',
                     'Quaternion.conjugate', 'Quaternion.product', 'Quaternion.to_DCM', 'Quaternion.mult_L',
                     'Quaternion.mult_R'])
def c_order(c):
    """the same quaternion stored scalar-last exposes the same w,x,y,z, conjugate, product and matrix"""
    q, r = c.reals('q', 4), c.reals('r', 4)
    c.assume(ne(dot(q, q), 0)); c.assume(ne(dot(r, r), 0))
    H = _Q(c, q, c.p['versor'], 'H')
    S = _Q(c, np.roll(q, -1), c.p['versor'], 'S')
    for nm in ('w', 'x', 'y', 'z'):
        c.goal(nm, eq(getattr(H, nm), getattr(S, nm)))
    c.goal_eq('v', H.v, S.v)
    c.goal_eq('conjugate', H.conjugate, np.roll(S.conjugate, 1))
    c.goal_eq('product', H.product(r), S.product(r))
    c.goal_eq('to_DCM', H.to_DCM(), S.to_DCM())
    c.goal_eq('mult_L', H.mult_L(), S.mult_L())
    c.goal_eq('mult_R', H.mult_R(), S.mult_R())
    c.observe('S.conj', S.conjugate)


@contract('C09', 'free-functions', functions=['orientation.q_prod', 'orientation.q_conj', 'orientation.q_mult_L',
                                              'orientation.q_mult_R', 'orientation.q_norm'])
def c_free(c):
    o = c.ahrs.common.orientation
    p, q, r = c.reals('p', 4), c.reals('q', 4), c.reals('r', 4)
    c.assume(ne(dot(p, p), 0)); c.assume(ne(dot(q, q), 0))
    pq = o.q_prod(p, q)
    c.goal_eq('q_prod=spec', pq, qmul(p, q))
    c.goal_eq('assoc', o.q_prod(o.q_prod(p, q), r), o.q_prod(p, o.q_prod(q, r)))
    c.goal_eq('conj-reverses', o.q_conj(pq), o.q_prod(o.q_conj(q), o.q_conj(p)))
    c.goal_eq('q_conj', o.q_conj(p), qconj(p))
    c.goal_eq('q_conj.batch', o.q_conj(np.array([p, q])), np.array([qconj(p), qconj(q)]))
    ph = o.q_norm(p.copy())
    c.goal('q_norm.unit', eq(dot(ph, ph), 1))
    n = sqrtv(dot(p, p))
    c.goal_eq('q_norm.direction', ph * n, p)
    # the matrix helpers normalise their argument: L(p^) q = p^ q = R(q^) ... stated on the normalised input
    L = o.q_mult_L(p.copy())
    R = o.q_mult_R(q.copy())
    qh = o.q_norm(q.copy())
    c.goal_eq('q_mult_L', L @ r, qmul(ph, r))
    c.goal_eq('q_mult_R', R @ r, qmul(r, qh))
    c.observe('L', L)


# ---- integer-typed operands (seed C09-2).  The symbolic engine works over the reals and cannot see the int/float dtype of
# a NumPy buffer (DESIGN 2.1), so the clause "for all quaternions ... all entry points agree" is additionally checked on
# integer-typed operands at concrete points: labelled concrete, never counted as proved.
_INT_PTS = [dict(p0=float(a[0]), p1=float(a[1]), p2=float(a[2]), p3=float(a[3]), s=float(s))
            for a in ([1, 2, -3, 4], [0, 1, 0, 0], [1, 0, 0, 0], [0, 0, -1, 0], [2, -1, 5, 3], [0, 0, 0, 1])
            for s in (1, 2, 3)]


@contract('C09', 'integer-operands.concrete', concrete_points=_INT_PTS,
          functions=['orientation.q_prod', 'orientation.q_conj', 'orientation.q_mult_L', 'orientation.q_mult_R', 'orientation.q_norm',
                     'Quaternion.__mul__', 'Quaternion.__matmul__', 'Quaternion.product', 'Quaternion.conjugate',
                     'Quaternion.inverse', 'Quaternion.mult_L', 'Quaternion.mult_R'], tol=1e-12)
def c_int_operands(c):
    """concrete points (NOT a proof): an operand handed over as an integer-typed array gives what the same values as floats give"""
    o = c.ahrs.common.orientation
    pi = np.array([int(c.real(f'p{k}')) for k in range(4)])                     # integer dtype
    pf = pi.astype(float)
    rng = np.random.default_rng(int(c.real('s')))
    q = rng.uniform(-1, 1, 4)                                                   # non-integer float operand
    ref = np.array([pf[0]*q[0] - pf[1]*q[1] - pf[2]*q[2] - pf[3]*q[3], pf[0]*q[1] + pf[1]*q[0] + pf[2]*q[3] - pf[3]*q[2],
                    pf[0]*q[2] - pf[1]*q[3] + pf[2]*q[0] + pf[3]*q[1], pf[0]*q[3] + pf[1]*q[2] - pf[2]*q[1] + pf[3]*q[0]])
    fer = np.array([q[0]*pf[0] - q[1]*pf[1] - q[2]*pf[2] - q[3]*pf[3], q[0]*pf[1] + q[1]*pf[0] + q[2]*pf[3] - q[3]*pf[2],
                    q[0]*pf[2] - q[1]*pf[3] + q[2]*pf[0] + q[3]*pf[1], q[0]*pf[3] + q[1]*pf[2] - q[2]*pf[1] + q[3]*pf[0]])
    c.goal_eq('q_prod(int,float)', o.q_prod(pi.copy(), q), ref)
    c.goal_eq('q_prod(float,int)', o.q_prod(q, pi.copy()), fer)
    c.goal_eq('q_prod(list,float)', o.q_prod([int(x) for x in pi], q), ref)
    c.goal_eq('assoc.int-first', o.q_prod(o.q_prod(pi.copy(), q), q), o.q_prod(pi.copy(), o.q_prod(q, q)))
    c.goal_eq('q_conj', o.q_conj(pi.copy()), o.q_conj(pf.copy()))
    c.goal_eq('q_norm', o.q_norm(pi.copy()), o.q_norm(pf.copy()))
    c.goal_eq('q_mult_L', o.q_mult_L(pi.copy()) @ q, o.q_mult_L(pf.copy()) @ q)
    c.goal_eq('q_mult_R', o.q_mult_R(pi.copy()) @ q, o.q_mult_R(pf.copy()) @ q)
    P = _Q(c, pi.copy(), False)
    c.goal_eq('Quaternion.stored', P.A, pf)
    c.goal_eq('product', P.product(q), ref)
    c.goal_eq('mul', np.asarray(P * q, dtype=float), ref)
    c.goal_eq('matmul', np.asarray(P @ q, dtype=float), ref)
    c.goal_eq('product(float,int)', _Q(c, q, False).product(pi.copy()), fer)
    c.goal_eq('conjugate', P.conjugate, _Q(c, pf, False).conjugate)
    c.goal_eq('inverse', P.inverse, _Q(c, pf, False).inverse)
    c.goal_eq('mult_L', P.mult_L() @ q, ref)
    c.goal_eq('mult_R', P.mult_R() @ q, fer)
