"""C09 -- Hamilton algebra laws on the real Quaternion class and the orientation free functions."""
import numpy as np
from rvc.api import *


def _Q(c, v, versor=True, order='H'):
    return c.ahrs.common.quaternion.Quaternion(v, versor=versor, order=order)


@contract('C09', 'product.associative+norm+conj')
def c_assoc(c):
    """(pq)r = p(qr); |pq|^2=|p|^2|q|^2; (pq)* = q* p*  -- non-normalised quaternions through the real class"""
    p, q, r = c.reals('p', 4), c.reals('q', 4), c.reals('r', 4)
    for v in (p, q, r):
        c.assume(ne(dot(v, v), 0))
    P, Q, R = _Q(c, p, False), _Q(c, q, False), _Q(c, r, False)
    c.goal_eq('stored.p', P.A, p)
    pq = P.product(Q)
    qr = Q.product(R)
    lhs = _Q(c, pq, False).product(R)
    rhs = P.product(qr)
    c.goal_eq('assoc', lhs, rhs)
    c.goal('norm-multiplicative', eq(dot(pq, pq), dot(p, p) * dot(q, q)))
    pqc = _Q(c, pq, False).conjugate
    c.goal_eq('conj-reverses', pqc, _Q(c, Q.conjugate, False).product(P.conjugate))
    c.goal_eq('product=spec', pq, qmul(p, q))
    c.observe('pq', pq)
