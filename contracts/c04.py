"""C04 -- single-frame estimators recover the attitude exactly from consistent data.

Data: acc = s_a * M(q)^T g_ref, mag = s_m * M(q)^T m_ref for a unit attitude q, positive scalings and a magnetic
reference with dip pair (cd, sd), cd >= cos 80 deg.  The result's matrix must equal M(q) or M(q)^T (the direction each
estimator documents), for every attitude on which the computation is defined."""
import numpy as np
from rvc.api import *

C80 = 0.17364817766693041      # cos(80 deg)
F = lambda c: c.ahrs.filters


def _setup(c, g_ref, m_ref_fn):
    q = c.unit_quat('q')
    cd, sd = c.real('cd'), c.real('sd')
    c.assume(eq(cd * cd + sd * sd, 1)); c.assume(ge(cd, C80))
    sa, sm = c.real('sa'), c.real('sm')
    c.assume(gt(sa, 0)); c.assume(gt(sm, 0))
    R = mat_of_quat(q)
    g = c.arr(g_ref)
    m = np.array(m_ref_fn(cd, sd), dtype=object if c.symbolic else float)
    acc = sa * (R.T @ g)
    mag = sm * (R.T @ m)
    return q, R, acc, mag, g, m


def _is(c, name, out, target):
    out = np.asarray(out)
    if out.shape == (4,):
        out = mat_of_quat(out)
    c.goal_eq(name, out, target)


EST = {
    # name: (g_ref, m_ref(cd, sd), run(c, acc, mag, g, m), 'M' | 'MT')
    'TRIAD.rotmat': ([0, 0, 1.0], lambda cd, sd: [cd, 0.0, sd], lambda c, a, m, g, mr: F(c).TRIAD(v1=g, v2=mr).estimate(a, m, 'rotmat'), 'MT'),
    'TRIAD.quaternion': ([0, 0, 1.0], lambda cd, sd: [cd, 0.0, sd], lambda c, a, m, g, mr: F(c).TRIAD(v1=g, v2=mr).estimate(a, m, 'quaternion'), 'MT'),
    'ecompass.NED': ([0, 0, 1.0], lambda cd, sd: [cd, 0.0, sd], lambda c, a, m, g, mr: c.ahrs.common.orientation.ecompass(a, m, 'NED', 'rotmat'), 'M'),
    'ecompass.ENU': ([0, 0, 1.0], lambda cd, sd: [0.0, cd, -sd], lambda c, a, m, g, mr: c.ahrs.common.orientation.ecompass(a, m, 'ENU', 'rotmat'), 'M'),
    'am2DCM.ENU': ([0, 0, 1.0], lambda cd, sd: [0.0, cd, -sd], lambda c, a, m, g, mr: c.ahrs.common.orientation.am2DCM(a, m, 'ENU'), 'MT'),
    'am2DCM.NED': ([0, 0, -1.0], lambda cd, sd: [cd, 0.0, sd], lambda c, a, m, g, mr: c.ahrs.common.orientation.am2DCM(a, m, 'NED'), 'MT'),
    'SAAM': ([0, 0, 1.0], lambda cd, sd: [cd, 0.0, sd], lambda c, a, m, g, mr: F(c).SAAM().estimate(a, m), 'MT'),
    'FAMC': ([0, 0, 1.0], lambda cd, sd: [cd, 0.0, sd], lambda c, a, m, g, mr: F(c).FAMC().estimate(a, m), 'M'),
    'AQUA.estimate': ([0, 0, 1.0], lambda cd, sd: [cd, 0.0, sd], lambda c, a, m, g, mr: F(c).AQUA().estimate(a, m), 'MT'),
}


QUICK = ('TRIAD.rotmat', 'ecompass.NED', 'ecompass.ENU', 'am2DCM.ENU', 'am2DCM.NED')


@contract('C04', 'recovers', variants=[dict(e=k) for k in EST if k in QUICK], optional=True, feas_timeout_ms=1500, budget_s=400, max_paths=300, timeout_ms=25000,
          functions=sorted(EST))
def c_recovers(c):
    g_ref, m_fn, run, direction = EST[c.p['e']]
    q, R, acc, mag, g, m = _setup(c, g_ref, m_fn)
    if c.p['e'] in ('SAAM', 'FAMC', 'AQUA.estimate', 'TRIAD.quaternion'):
        # closed-form class: general position (every quaternion component at least 0.05 in magnitude)
        for k in range(4):
            c.assume(ge(q[k] * q[k], 0.0025))
    out = run(c, acc, mag, g, m)
    _is(c, 'attitude', out, R if direction == 'M' else R.T)
    c.observe('out', out)


@contract('C04', 'recovers.thorough', variants=[dict(e=k) for k in EST if k not in QUICK], optional=True, feas_timeout_ms=1500,
          budget_s=3000, max_paths=300, thorough_only=True, functions=['SAAM.estimate', 'FAMC.estimate', 'AQUA.estimate', 'TRIAD.estimate'])
def c_recovers_t(c):
    c_recovers(c)


NOT_COVERED = ["Davenport, QUEST, FLAE (all modes), OLEQ (np.linalg.eig / iterations / random start: out of reach)",
               "FQA, Tilt, acc2q/am2q/am2angles (trig-heavy; not attempted in this session)",
               "estimators whose unit is listed as not discharged in the evidence are not claimed"]


# ----------------------------------------------------------------------------------------- concrete canonical grid
def _grid():
    import itertools
    pts = []
    k = 0
    for dip in (-70.0, -20.0, 35.0, 75.0):
        for pose in ('random1', 'random2', 'random3', 'level-heading-30', 'level-heading-200', 'inverted', 'inverted-tilted',
                     'x-up', 'y-up', 'half-turn-oblique'):
            for scale in ((1.0, 1.0), (9.81, 48.0)):
                pts.append(dict(dip=dip, pose=float(k % 10), sa=scale[0], sm=scale[1]))
                k += 1
    return pts


POSES = ['random1', 'random2', 'random3', 'level-heading-30', 'level-heading-200', 'inverted', 'inverted-tilted', 'x-up', 'y-up',
         'half-turn-oblique']


def _pose_quat(name):
    rng = np.random.default_rng(abs(hash(name)) % 1000 if False else {'random1': 1, 'random2': 2, 'random3': 3}.get(name, 7))
    def axang(ax, ang):
        ax = np.array(ax, float); ax /= np.linalg.norm(ax)
        return np.array([np.cos(ang / 2), *(np.sin(ang / 2) * ax)])
    def qm(p, q):
        return np.array([p[0]*q[0]-p[1]*q[1]-p[2]*q[2]-p[3]*q[3], p[0]*q[1]+p[1]*q[0]+p[2]*q[3]-p[3]*q[2],
                         p[0]*q[2]-p[1]*q[3]+p[2]*q[0]+p[3]*q[1], p[0]*q[3]+p[1]*q[2]-p[2]*q[1]+p[3]*q[0]])
    if name.startswith('random'):
        q = rng.normal(size=4); return q / np.linalg.norm(q)
    if name == 'level-heading-30':
        return axang([0, 0, 1], np.radians(30))
    if name == 'level-heading-200':
        return axang([0, 0, 1], np.radians(200))
    if name == 'inverted':
        return qm(axang([0, 0, 1], 0.4), axang([1, 0, 0], np.pi))
    if name == 'inverted-tilted':
        return qm(axang([0, 0, 1], 1.1), axang([1, 0.3, 0], np.radians(150)))
    if name == 'x-up':
        return qm(axang([0, 0, 1], 0.7), axang([0, 1, 0], np.radians(80)))
    if name == 'y-up':
        return qm(axang([0, 0, 1], -0.5), axang([1, 0, 0], np.radians(85)))
    return axang([1, 2, 3], np.pi)


GRID_EST = {
    # name: (g_ref, m_ref(c, s), run(ahrs, a, m, m_ref), matrix expected: 'M' (= M(q)) or 'MT')
    'SAAM': ([0, 0, 1.0], lambda c, s: [c, 0, s], lambda ah, a, m, mr: ah.filters.SAAM().estimate(a, m), 'MT'),
    'FAMC': ([0, 0, 1.0], lambda c, s: [c, 0, s], lambda ah, a, m, mr: ah.filters.FAMC().estimate(a, m), 'M'),
    'Tilt': ([0, 0, 1.0], lambda c, s: [c, 0, s], lambda ah, a, m, mr: ah.filters.Tilt().estimate(a, m), 'M'),
    'AQUA': ([0, 0, 1.0], lambda c, s: [c, 0, s], lambda ah, a, m, mr: ah.filters.AQUA().estimate(a, m), 'MT'),
    'FQA': ([0, 0, -1.0], lambda c, s: [c, 0, s], lambda ah, a, m, mr: ah.filters.FQA(mag_ref=np.array(mr)).estimate(a.copy(), m.copy()), 'M'),
    'FQA.east': ([0, 0, -1.0], lambda c, s: [c * np.cos(0.35), c * np.sin(0.35), s],
                 lambda ah, a, m, mr: ah.filters.FQA(mag_ref=np.array(mr)).estimate(a.copy(), m.copy()), 'M'),
    'Davenport': ([0, 0, 1.0], lambda c, s: [c, 0, s], None, 'M'),
    'QUEST': ([0, 0, 1.0], lambda c, s: [c, 0, s], None, 'M'),
}


@contract('C04', 'recovers.grid', variants=[dict(e=k) for k in GRID_EST], concrete_points=_grid(),
          bounded='80 canonical points per estimator: 4 dips x 10 poses (random, level, inverted, vertical axes, oblique half-turn) '
                  'x 2 scalings; NOT a proof', functions=['SAAM.estimate', 'FAMC.estimate', 'Tilt.estimate', 'AQUA.estimate',
                                                          'FQA.estimate', 'Davenport.estimate', 'QUEST.estimate'])
def c_grid(c):
    """BOUNDED stand-in for the estimators out of symbolic reach: on the canonical grid the returned attitude maps the
    references onto the measurements in the estimator's documented direction (1e-6), or the pose is one of the estimator's
    published singular poses (then the point is skipped, which is recorded)"""
    import ahrs, warnings
    warnings.filterwarnings('ignore')
    name = c.p['e']
    g_ref, m_fn, run, direction = GRID_EST[name]
    dip = np.radians(c.real('dip')); cd, sd = np.cos(dip), np.sin(dip)
    q = _pose_quat(POSES[int(c.real('pose'))])
    R = ahrs.Quaternion(q).to_DCM()
    g = np.array(g_ref, float); mr = np.array(m_fn(cd, sd), float)
    a = c.real('sa') * (R.T @ g); m = c.real('sm') * (R.T @ mr)
    closed_form = name in ('SAAM', 'FAMC', 'FQA', 'FQA.east', 'QUEST')
    if closed_form and (min(abs(q)) < 0.05 or abs(q[0]) < np.cos((np.pi - 0.1) / 2)):
        c.note('outside general position for a closed-form estimator: skipped')
        return
    if name in ('Davenport', 'QUEST'):
        f = getattr(ahrs.filters, name)(magnetic_dip=float(c.real('dip')))
        out = np.real(f.estimate(a, m))
    else:
        out = run(ahrs, a, m, mr)
    out = np.asarray(out, float)
    A = ahrs.Quaternion(out).to_DCM() if out.shape == (4,) else out
    want = R if direction == 'M' else R.T
    c.goal('attitude', bool(np.allclose(A, want, atol=1e-6)))
