"""C04 -- single-frame estimators recover the attitude exactly from consistent data.

Data: acc = s_a * M(q)^T g_ref, mag = s_m * M(q)^T m_ref for a unit attitude q, positive scalings and a magnetic
reference with dip pair (cd, sd), cd >= cos 80 deg.  The result's matrix must equal M(q) or M(q)^T (the direction each
estimator documents), for every attitude on which the computation is defined."""
import numpy as np
from rvc.api import *

C80 = 0.17364817766693041      # cos(80 deg)
F = lambda c: c.ahrs.filters


def _setup(c, g_ref, m_ref_fn):
    q = c.unit_quat('q')
    cd, sd = c.real('cd'), c.real('sd')
    c.assume(eq(cd * cd + sd * sd, 1)); c.assume(ge(cd, C80))
    sa, sm = c.real('sa'), c.real('sm')
    c.assume(gt(sa, 0)); c.assume(gt(sm, 0))
    R = mat_of_quat(q)
    g = c.arr(g_ref)
    m = np.array(m_ref_fn(cd, sd), dtype=object if c.symbolic else float)
    acc = sa * (R.T @ g)
    mag = sm * (R.T @ m)
    return q, R, acc, mag, g, m


def _is(c, name, out, target):
    out = np.asarray(out)
    if out.shape == (4,):
        out = mat_of_quat(out)
    c.goal_eq(name, out, target)


EST = {
    # name: (g_ref, m_ref(cd, sd), run(c, acc, mag, g, m), 'M' | 'MT')
    'TRIAD.rotmat': ([0, 0, 1.0], lambda cd, sd: [cd, 0.0, sd], lambda c, a, m, g, mr: F(c).TRIAD(v1=g, v2=mr).estimate(a, m, 'rotmat'), 'MT'),
    'TRIAD.quaternion': ([0, 0, 1.0], lambda cd, sd: [cd, 0.0, sd], lambda c, a, m, g, mr: F(c).TRIAD(v1=g, v2=mr).estimate(a, m, 'quaternion'), 'MT'),
    'ecompass.NED': ([0, 0, 1.0], lambda cd, sd: [cd, 0.0, sd], lambda c, a, m, g, mr: c.ahrs.common.orientation.ecompass(a, m, 'NED', 'rotmat'), 'M'),
    'ecompass.ENU': ([0, 0, 1.0], lambda cd, sd: [0.0, cd, -sd], lambda c, a, m, g, mr: c.ahrs.common.orientation.ecompass(a, m, 'ENU', 'rotmat'), 'M'),
    'am2DCM.ENU': ([0, 0, 1.0], lambda cd, sd: [0.0, cd, -sd], lambda c, a, m, g, mr: c.ahrs.common.orientation.am2DCM(a, m, 'ENU'), 'MT'),
    'am2DCM.NED': ([0, 0, -1.0], lambda cd, sd: [cd, 0.0, sd], lambda c, a, m, g, mr: c.ahrs.common.orientation.am2DCM(a, m, 'NED'), 'MT'),
    'SAAM': ([0, 0, 1.0], lambda cd, sd: [cd, 0.0, sd], lambda c, a, m, g, mr: F(c).SAAM().estimate(a, m), 'MT'),
    'FAMC': ([0, 0, 1.0], lambda cd, sd: [cd, 0.0, sd], lambda c, a, m, g, mr: F(c).FAMC().estimate(a, m), 'M'),
    'AQUA.estimate': ([0, 0, 1.0], lambda cd, sd: [cd, 0.0, sd], lambda c, a, m, g, mr: F(c).AQUA().estimate(a, m), 'MT'),
}


QUICK = ('TRIAD.rotmat', 'ecompass.NED', 'ecompass.ENU', 'am2DCM.ENU', 'am2DCM.NED')


@contract('C04', 'recovers', variants=[dict(e=k) for k in EST if k in QUICK], optional=True, feas_timeout_ms=1500, budget_s=400, max_paths=300, timeout_ms=25000,
          functions=sorted(EST))
def c_recovers(c):
    g_ref, m_fn, run, direction = EST[c.p['e']]
    q, R, acc, mag, g, m = _setup(c, g_ref, m_fn)
    if c.p['e'] in ('SAAM', 'FAMC', 'AQUA.estimate', 'TRIAD.quaternion'):
        # closed-form class: general position (every quaternion component at least 0.05 in magnitude)
        for k in range(4):
            c.assume(ge(q[k] * q[k], 0.0025))
    out = run(c, acc, mag, g, m)
    _is(c, 'attitude', out, R if direction == 'M' else R.T)
    c.observe('out', out)


@contract('C04', 'recovers.thorough', variants=[dict(e=k) for k in EST if k not in QUICK], optional=True, feas_timeout_ms=1500,
          budget_s=3000, max_paths=300, thorough_only=True, functions=['SAAM.estimate', 'FAMC.estimate', 'AQUA.estimate', 'TRIAD.estimate'])
def c_recovers_t(c):
    c_recovers(c)


NOT_COVERED = ["Davenport, QUEST, FLAE (all modes), OLEQ (np.linalg.eig / iterations / random start: out of reach)",
               "FQA, Tilt, acc2q/am2q/am2angles (trig-heavy; not attempted in this session)",
               "estimators whose unit is listed as not discharged in the evidence are not claimed"]
