"""C15 -- WMM answers depend only on (date, place, frame), not on call path or history."""
import math
import numpy as np
from rvc.api import *

PI = math.pi


def _place(c, tag=''):
    lat = c.angle_deg('lat' + tag, -PI / 2, PI / 2)
    lon = c.angle_deg('lon' + tag, -PI, PI, hi_strict=False)
    h = c.real('h' + tag)
    c.assume(And(ge(h, -1), le(h, 850)))
    return lat, lon, h


def _elements(w):
    return np.array([w.X, w.Y, w.Z])


@contract('C15', 'history-independent', variants=[dict(second='date'), dict(second='None')], cas=False, no_safety=True,
          feas_timeout_ms=1500, budget_s=1500, max_paths=600, no_crosscheck=True, cost=20,
          functions=['WMM.magnetic_field', 'WMM.reset_coefficients', 'WMM.load_coefficients', 'WMM.denormalize_coefficients',
                     'wmm.geodetic2spherical'])
def c_history(c):
    """the same query on a fresh object and on an object that has already answered another query (other place, other
    epoch file) gives the same X, Y, Z -- also when the second call passes date=None (coefficients must not be re-scaled)"""
    W = c.ahrs.utils.WMM
    lat, lon, h = _place(c)
    fresh = W(date=2016.3, latitude=10.0, longitude=10.0, height=0.0)
    fresh.magnetic_field(lat, lon, h, date=2016.3)
    used = W(date=2021.5, latitude=-33.0, longitude=151.0, height=0.1)      # another query first (WMM2020 file)
    if c.p['second'] == 'date':
        used.magnetic_field(lat, lon, h, date=2016.3)
        c.goal_eq('same-XYZ', _elements(used), _elements(fresh))
    else:
        used.magnetic_field(20.0, 30.0, 0.0, date=2016.3)                 # switch epoch, then query with date=None
        used.magnetic_field(lat, lon, h, date=None)
        # and once more after a date whose day-resolution round trip lands on another tenth of a year
        used.magnetic_field(20.0, 30.0, 0.0, date=2017.349)
        used.magnetic_field(lat, lon, h, date=None)
        again = W(date=2017.349, latitude=10.0, longitude=10.0, height=0.0)
        again.magnetic_field(lat, lon, h, date=2017.349)
        c.goal_eq('same-XYZ.2017.349', _elements(used), _elements(again))
        return


@contract('C15', 'constructor=method', cas=False, no_safety=True, feas_timeout_ms=1500, budget_s=1500, max_paths=600,
          no_crosscheck=True, cost=20, functions=['WMM.__init__', 'WMM.magnetic_field'])
def c_ctor(c):
    """WMM(date, lat, lon, h) holds the same elements as WMM().magnetic_field(lat, lon, h, date) -- for every latitude
    and longitude, 0 included (the constructor must not skip the computation)"""
    W = c.ahrs.utils.WMM
    lat, lon, h = _place(c)
    a = W(date=2023.2, latitude=lat, longitude=lon, height=h)
    c.goal('constructor-computed', a.X is not None)
    if a.X is None:
        return
    b = W(date=2023.2)
    b.magnetic_field(lat, lon, h, date=2023.2)
    c.goal_eq('same-XYZ', _elements(a), _elements(b))


@contract('C15', 'constructor.zero-lat-lon', concrete_points=[dict(lat=0.0, lon=12.0), dict(lat=33.0, lon=0.0), dict(lat=0.0, lon=0.0),
                                                             dict(lat=90.0, lon=0.0), dict(lat=-90.0, lon=45.0), dict(lat=10.0, lon=180.0)],
          functions=['WMM.__init__'])
def c_zero(c):
    """concrete canonical points (not a proof): equator, prime meridian, poles, +-180: constructor == method, elements finite"""
    W = c.ahrs.utils.WMM
    lat, lon = c.real('lat'), c.real('lon')
    a = W(date=2023.2, latitude=lat, longitude=lon, height=0.0)
    c.goal('constructor-computed', a.X is not None)
    if a.X is None:
        return
    b = W(date=2023.2); b.magnetic_field(lat, lon, 0.0, date=2023.2)
    c.goal('same', all(abs(getattr(a, k) - getattr(b, k)) <= 1e-9 * (1 + abs(getattr(b, k))) for k in 'XYZHFID'))
    c.goal('finite', all(math.isfinite(getattr(a, k)) for k in 'XYZHFID'))
    if lon == 180.0:
        e = W(date=2023.2, latitude=lat, longitude=-180.0, height=0.0)
        c.goal('lon+180=-180', all(abs(getattr(a, k) - getattr(e, k)) <= 1e-6 for k in 'XYZHF'))


@contract('C15', 'consistent-elements', variants=[dict(frame='NED'), dict(frame='ENU')], cas=False, no_safety=True,
          feas_timeout_ms=1500, budget_s=1500, max_paths=600, no_crosscheck=True, cost=20, functions=['WMM.magnetic_field'])
def c_consistent(c):
    """H, F follow from X, Y, Z; the ENU frame is the NED vector with north/east swapped and down negated"""
    W = c.ahrs.utils.WMM
    lat, lon, h = _place(c)
    w = W(date=2023.2, frame=c.p['frame'])
    w.magnetic_field(lat, lon, h, date=2023.2)
    c.goal('H^2=X^2+Y^2', And(eq(w.H * w.H, w.X * w.X + w.Y * w.Y), ge(w.H, 0)))
    c.goal('F^2=H^2+Z^2', And(eq(w.F * w.F, w.H * w.H + w.Z * w.Z), ge(w.F, 0)))
    if c.p['frame'] == 'ENU':
        n = W(date=2023.2, frame='NED')
        n.magnetic_field(lat, lon, h, date=2023.2)
        c.goal_eq('ENU=(Y,X,-Z) of NED', _elements(w), np.array([n.Y, n.X, -n.Z]))


NOT_COVERED = ["exact poles in the symbolic units (|lat| < 90 deg there; the poles are concrete canonical points)",
               "I and D beyond their arctan2 definitions; GV",
               "arbitrary query sequences beyond one earlier query (state written by a call is exactly c, cd, epoch, date, "
               "which the next call reloads: proved for the sequences in the units)"]
