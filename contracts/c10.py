"""C10 -- attitude representations round-trip (Euler, axis-angle, log/exp, powers, Euler sequences, matrix log)."""
import math, itertools
import numpy as np
from rvc.api import *

PI = math.pi
HALF = PI / 2


def _angles(c):
    roll = c.angle('roll', -PI, PI, hi_strict=False)
    pitch = c.angle('pitch', -HALF, HALF)
    yaw = c.angle('yaw', -PI, PI, hi_strict=False)
    return roll, pitch, yaw


@contract('C10', 'rpy-roundtrip', variants=[dict(via='Quaternion'), dict(via='QuaternionArray'), dict(via='rpy2q/q2rpy'),
                                            dict(via='Quaternion(rpy=)')],
          functions=['Quaternion.from_rpy', 'Quaternion.to_angles', 'QuaternionArray.from_rpy', 'QuaternionArray.to_angles',
                     'orientation.rpy2q', 'orientation.q2rpy', 'Quaternion.from_angles'])
def c_rpy(c):
    """angles -> quaternion -> angles is the identity whenever |pitch| < 90 degrees"""
    a = c.ahrs
    roll, pitch, yaw = _angles(c)
    ang = np.array([roll, pitch, yaw], dtype=object) if c.symbolic else np.array([roll, pitch, yaw])
    via = c.p['via']
    if via == 'Quaternion':
        q = a.Quaternion.from_rpy(a.Quaternion, ang)
        out = a.Quaternion(q).to_angles()
    elif via == 'Quaternion(rpy=)':
        Q = a.Quaternion(rpy=ang)
        out = Q.to_angles()
    elif via == 'QuaternionArray':
        QA = a.QuaternionArray(rpy=np.array([ang, ang]))
        out = QA.to_angles()[1]
    else:
        o = a.common.orientation
        q = o.rpy2q(np.array(ang))
        out = o.q2rpy(q)
    c.goal_angle_eq('roll', out[0], roll)
    c.goal_angle_eq('pitch', out[1], pitch)
    c.goal_angle_eq('yaw', out[2], yaw)


@contract('C10', 'axis-angle', variants=[dict(via='Quaternion.to_axang'), dict(via='axang2quat/quat2axang'), dict(via='DCM')],
          functions=['Quaternion.to_axang', 'orientation.axang2quat', 'orientation.quat2axang', 'DCM.from_axisangle',
                     'DCM.to_axisangle', 'mathfuncs.skew'])
def c_axang(c):
    """axis-angle round trips for every rotation angle strictly between 0 and pi"""
    a = c.ahrs
    u = c.unit_vec('u')
    th = c.angle('t', 0.0, PI)
    via = c.p['via']
    if via == 'DCM':
        R = a.DCM.from_axisangle(a.DCM, u, th)
        D = a.DCM(R)
        ax, an = D.to_axisangle()
    else:
        if via == 'Quaternion.to_axang':
            ch, sh = c.cos(th / 2.0), c.sin(th / 2.0)
            q = np.array([ch, sh * u[0], sh * u[1], sh * u[2]])
            ax, an = a.Quaternion(q, versor=False).to_axang()
        else:
            o = a.common.orientation
            q = o.axang2quat(u.copy(), th)
            ax, an = o.quat2axang(q.copy())
    c.goal_eq('axis', ax, u)
    c.goal_angle_eq('angle', an, th) if via == 'DCM' else _half_angle_goal(c, an, th)


def _half_angle_goal(c, an, th):
    # an = 2*arctan2(|v|, w): compare the half angles (both in (0, pi/2))
    c.goal_angle_eq('half-angle', an / 2.0, th / 2.0)


@contract('C10', 'exp-log', functions=['Quaternion.logarithm', 'Quaternion.exponential', 'Quaternion.log', 'Quaternion.exp'])
def c_explog(c):
    """exp(log q) = q for unit quaternions"""
    a = c.ahrs
    q = c.unit_quat('q')
    Q = a.Quaternion(q, versor=False)
    L = Q.logarithm
    c.goal_eq('log=logarithm', Q.log, L)
    c.goal('log.is-pure', eq(L[0], 0))
    if c.symbolic:
        c.assume(ne(dot(L, L), 0))     # q = +-1 (log = 0) is the constructor's zero vector; checked separately below
    elif not np.any(L):
        raise Skip()
    back = a.Quaternion(L, versor=False).exponential
    c.goal_eq('exp(log q)=q', back, q)
    c.goal_eq('exp=exponential', a.Quaternion(L, versor=False).exp, back)


def _versor(c):
    u = c.unit_vec('u')
    phi = c.angle('phi', 0.0, PI)          # half the rotation angle
    cphi, sphi = c.cos(phi), c.sin(phi)
    q = np.array([cphi, sphi * u[0], sphi * u[1], sphi * u[2]])
    return u, phi, q


@contract('C10', 'power.integer', variants=[dict(k=0), dict(k=1), dict(k=2), dict(k=3), dict(k=-1)],
          functions=['Quaternion.__pow__', 'Quaternion.logarithm', 'Quaternion.exponential'])
def c_pow_int(c):
    """q^k = (cos k*phi, u sin k*phi) for q = (cos phi, u sin phi): q^1 = q, q^0 = 1"""
    u, phi, q = _versor(c)
    Q = c.ahrs.Quaternion(q, versor=False)
    k = c.p['k']
    r = Q ** k
    if k == 0:
        c.goal_eq('q^0=1', r, c.arr([1.0, 0.0, 0.0, 0.0]))
    else:
        c.goal_eq(f'q^k', r, np.array([c.cos(phi * k), *(c.sin(phi * k) * u)]))
    if k == 1:
        c.goal_eq('q^1=q', r, q)
        c.goal_eq('q^1.0=q', Q ** 1.0, q)


@contract('C10', 'power.real', thorough_only=True, functions=['Quaternion.__pow__', 'Quaternion.logarithm', 'Quaternion.exponential'])
def c_pow_real(c):
    """q^a = (cos a*phi, u sin a*phi) for real a; q^a q^b = q^(a+b)"""
    u, phi, q = _versor(c)
    Q = c.ahrs.Quaternion(q, versor=False)
    e = c.real('a'); f = c.real('b')
    c.assume(And(ge(e, -3), le(e, 3), ge(f, -3), le(f, 3)))
    c.assume(And(ne(e, 0), ne(f, 0), ne(e + f, 0)))          # exponent 0 is the unit power.integer[k=0]
    pa = Q ** e
    c.goal_eq('q^a=(cos a phi, u sin a phi)', pa, np.array([c.cos(phi * e), *(c.sin(phi * e) * u)]))
    pb, pab = Q ** f, Q ** (e + f)
    c.goal_eq('q^a q^b=q^(a+b)', qmul(pa, pb), pab)


def _elem(c, ax, t):
    ca, sa = c.cos(t), c.sin(t)
    if ax == 'x':
        return np.array([[1.0, 0.0, 0.0], [0.0, ca, -sa], [0.0, sa, ca]], dtype=object if c.symbolic else float)
    if ax == 'y':
        return np.array([[ca, 0.0, sa], [0.0, 1.0, 0.0], [-sa, 0.0, ca]], dtype=object if c.symbolic else float)
    return np.array([[ca, -sa, 0.0], [sa, ca, 0.0], [0.0, 0.0, 1.0]], dtype=object if c.symbolic else float)


SEQS = [''.join(s) for n in (1, 2, 3) for s in itertools.product('xyz', repeat=n)]


def _outside_window(t):
    # rotation() returns the identity when 0 <= (ang*DEG2RAD) % 2pi <= 1e-8, i.e. for 0 < ang <= 5.73e-7 rad
    return Or(le(t, 0), gt(t * (PI / 180.0), 1e-8))


@contract('C10', 'rot_seq', variants=[dict(seq=s) for s in SEQS], functions=['dcm.rot_seq', 'dcm.rotation'])
def c_rotseq(c):
    """a matrix built from an Euler sequence equals the ordered product of the elementary rotations"""
    a = c.ahrs
    seq = c.p['seq']
    angs = [c.angle(f't{i}', -PI, PI, hi_strict=False) for i in range(len(seq))]
    for t in angs:
        c.assume(_outside_window(t))
    R = a.common.dcm.rot_seq(seq, list(angs))
    ref = np.identity(3).astype(object) if c.symbolic else np.identity(3)
    for i in range(len(seq) - 1, -1, -1):
        ref = _elem(c, seq[i], angs[i]) @ ref
    c.goal_eq('R=product', R, ref)


@contract('C10', 'rotation.shortcut-window', variants=[dict(ax='x'), dict(ax='y'), dict(ax='z')],
          functions=['dcm.rotation'], tol=2e-6)
def c_rot_window(c):
    """inside the window 0 < ang <= 5.73e-7 rad rotation() returns the identity: within 1e-6 of the true rotation"""
    a = c.ahrs
    t = c.angle('t', 0.0, 5.8e-7)
    R = a.common.dcm.rotation(c.p['ax'], t)
    ref = _elem(c, c.p['ax'], t)
    for i in range(3):
        for j in range(3):
            d = R[i, j] - ref[i, j]
            c.goal(f'|R-Relem|<=1e-6[{i},{j}]', And(le(d, 1e-6), ge(d, -1e-6)))


@contract('C10', 'DCM(x,y,z)/rpy/euler', variants=[dict(route='xyz'), dict(route='rpy'), dict(route='euler.zyz'),
                                                    dict(route='euler.yx')],
          functions=['DCM.__new__', 'dcm.rot_seq', 'dcm.rotation'])
def c_dcm_routes(c):
    a = c.ahrs
    r = c.p['route']
    x = c.angle('x', 1e-6, PI); y = c.angle('y', -PI, -1e-6); z = c.angle('z', 1e-6, PI)
    if r == 'xyz':
        D = a.DCM(x=x, y=y, z=z).A
        ref = _elem(c, 'x', x) @ _elem(c, 'y', y) @ _elem(c, 'z', z)
    elif r == 'rpy':
        D = a.DCM(rpy=[x, y, z]).A
        ref = _elem(c, 'z', x) @ _elem(c, 'y', y) @ _elem(c, 'x', z)
    elif r == 'euler.zyz':
        D = a.DCM(euler=('zyz', [x, y, z])).A
        ref = _elem(c, 'z', x) @ _elem(c, 'y', y) @ _elem(c, 'z', z)
    else:
        D = a.DCM(euler=('yx', [x, y])).A
        ref = _elem(c, 'y', x) @ _elem(c, 'x', y)
    c.goal_eq('D=product', D, ref)


@contract('C10', 'DCM.log', functions=['DCM.log'])
def c_dcmlog(c):
    """the matrix logarithm is skew-symmetric with Frobenius norm sqrt(2)*theta for every angle in (0, pi)"""
    a = c.ahrs
    q = c.unit_quat('q')
    c.assume(ne(q[0], 0))                 # angle < pi
    c.assume(ne(q[0] * q[0], 1))          # angle > 0 (theta = 0: zeros, checked by the last goal)
    R = mat_of_quat(q)
    D = a.DCM(R)
    tr = R[0, 0] + R[1, 1] + R[2, 2]
    S = R - R.T
    c.lemma('|R-R^T|_F^2=8(1-c^2)', eq(sum(S[i, j] * S[i, j] for i in range(3) for j in range(3)),
                                       8 * (1 - ((tr - 1) / 2) * ((tr - 1) / 2))))
    L = D.log
    c.goal_eq('skew', L + L.T, c.arr(np.zeros((3, 3))))
    theta = c.np.arccos((tr - 1) / 2.0)
    c.goal('|log|_F^2=2 theta^2', eq(sum(L[i, j] * L[i, j] for i in range(3) for j in range(3)), 2 * theta * theta))
    I = a.DCM(c.arr(np.identity(3)))
    c.goal_eq('log(I)=0', I.log, c.arr(np.zeros((3, 3))))


EXCLUSIONS = ["rot_seq / rotation(): angles with 0 < ang*pi/180 <= 1e-8 (the code's own isclose shortcut returns the identity there); "
              "that window is covered by the unit rotation.shortcut-window with the bound |R - R_elem| <= 1e-6"]
NOT_COVERED = ["q = +-1 for exp(log q) through the Quaternion constructor (log q = 0 is rejected as a zero vector by the constructor)",
               "real exponents outside the proved identities q^a q^b = q^(a+b), q^a = (cos a phi, u sin a phi) for a, b in [-3, 3]",
               "non-unit quaternions for exponential/logarithm"]
