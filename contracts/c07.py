"""C07 -- array (vectorised) entry points equal the scalar entry points row by row."""
import math
import numpy as np
from rvc.api import *

PI = math.pi


def _rows(c, name, n, m, nonzero=True):
    A = c.reals(name, (n, m))
    if nonzero:
        for r in A:
            c.assume(ne(dot(r, r), 0))
    return A


def _eq_rows(c, name, batch, singles):
    batch = np.asarray(batch)
    c.goal(f'{name}.rows', len(batch) == len(singles))
    for i, s in enumerate(singles):
        c.goal_eq(f'{name}[{i}]', np.asarray(batch[i]), np.asarray(s))


# ----------------------------------------------------------------------------------------- QuaternionArray vs Quaternion
@contract('C07', 'QuaternionArray', variants=[dict(op=o) for o in ('ctor', 'to_DCM', 'conjugate', 'to_angles', 'w/x/y/z/v')], cas=False,
          functions=['QuaternionArray.__new__', 'QuaternionArray.to_DCM', 'QuaternionArray.conjugate',
                     'QuaternionArray.to_angles', 'Quaternion.__new__', 'Quaternion.to_DCM', 'Quaternion.conjugate',
                     'Quaternion.to_angles'])
def c_qarray(c):
    a = c.ahrs
    V = _rows(c, 'V', 2, 4)
    QA = a.QuaternionArray(V)
    Qs = [a.Quaternion(V[i]) for i in range(2)]
    op = c.p['op']
    if op == 'ctor':
        _eq_rows(c, 'array', QA.array, [q.A for q in Qs])
        one = a.QuaternionArray(V[:1])
        c.goal_eq('one-row', one.array[0], Qs[0].A)
    elif op == 'to_DCM':
        _eq_rows(c, 'to_DCM', QA.to_DCM(), [q.to_DCM() for q in Qs])
    elif op == 'conjugate':
        _eq_rows(c, 'conjugate', QA.conjugate(), [q.conjugate for q in Qs])
        _eq_rows(c, 'conj', QA.conj(), [q.conj for q in Qs])
    elif op == 'to_angles':
        B = QA.to_angles()
        for i, q in enumerate(Qs):
            s = q.to_angles()
            for k in range(3):
                c.goal(f'to_angles[{i},{k}].cos', eq(c.cos(B[i][k]), c.cos(s[k])))
                c.goal(f'to_angles[{i},{k}].sin', eq(c.sin(B[i][k]), c.sin(s[k])))
    else:
        for nm in ('w', 'x', 'y', 'z'):
            _eq_rows(c, nm, getattr(QA, nm), [getattr(q, nm) for q in Qs])
        _eq_rows(c, 'v', QA.v, [q.v for q in Qs])


@contract('C07', 'from_rpy', cas=False, functions=['QuaternionArray.from_rpy', 'Quaternion.from_rpy', 'orientation.rpy2q'])
def c_from_rpy(c):
    a = c.ahrs
    ang = np.array([[c.angle(f'a{i}{k}', -PI, PI) for k in range(3)] for i in range(2)])
    B = a.QuaternionArray(rpy=ang).array
    S = [a.Quaternion(rpy=ang[i]).A for i in range(2)]
    _eq_rows(c, 'QuaternionArray(rpy=)', B, S)
    o = a.common.orientation
    B2 = o.rpy2q(np.array(ang)).T if False else None
    R = [o.rpy2q(np.array(ang[i])) for i in range(2)]
    _eq_rows(c, 'rpy2q=Quaternion.from_rpy', np.array(R), S)


METHODS = [('shepperd', {}), ('chiaverini', {}), ('hughes', {}), ('sarabandi', {})]


@contract('C07', 'from_DCM', variants=[dict(method=m) for m in ('shepperd', 'hughes')], cost=5, cas=False, feas_timeout_ms=1500,
          functions=['QuaternionArray.from_DCM', 'Quaternion.from_DCM', 'orientation.hughes', 'orientation.chiaverini'])
def c_from_dcm(c):
    """QuaternionArray(DCM=stack, method=m) row i == Quaternion(dcm=stack[i], method=m), options honoured on both paths"""
    a = c.ahrs
    p, q = c.unit_quat('p'), c.unit_quat('q')
    for v in (p, q):
        c.assume(ge(v[0] * v[0], 2.5e-13))
    R = np.array([mat_of_quat(p), mat_of_quat(q)])
    m = c.p['method']
    B = a.QuaternionArray(DCM=R, method=m).array
    S = [a.Quaternion(dcm=R[i], method=m).A for i in range(2)]
    _eq_rows(c, 'rows', B, S)
    one = a.QuaternionArray(DCM=R[:1], method=m).array
    c.goal_eq('one-row', one[0], S[0])


@contract('C07', '3d-vs-2d', variants=[dict(f='hughes')], cas=False, feas_timeout_ms=1500,
          functions=['orientation.hughes', 'orientation.chiaverini'])
def c_3d(c):
    o = c.ahrs.common.orientation
    p, q = c.unit_quat('p'), c.unit_quat('q')
    for v in (p, q):
        c.assume(ge(v[0] * v[0], 2.5e-13))
    R = np.array([mat_of_quat(p), mat_of_quat(q)])
    f = getattr(o, c.p['f'])
    _eq_rows(c, 'rows', f(R), [f(R[0]), f(R[1])])


@contract('C07', '2d-vs-1d', variants=[dict(f=f) for f in ('q2R.v1', 'q2R.v2', 'DCM.from_quaternion', 'q_conj', 'q_norm')], cas=False,
          functions=['orientation.q2R', 'DCM.from_quaternion', 'orientation.q_conj', 'orientation.q_norm'])
def c_2d(c):
    a = c.ahrs
    o = a.common.orientation
    V = _rows(c, 'V', 2, 4)
    f = c.p['f']
    if f.startswith('q2R'):
        ver = 1 if f.endswith('v1') else 2
        _eq_rows(c, 'rows', o.q2R(V.copy(), ver), [o.q2R(V[i].copy(), ver) for i in range(2)])
    elif f == 'DCM.from_quaternion':
        _eq_rows(c, 'rows', a.DCM.from_quaternion(V), [a.DCM.from_quaternion(V[i]) for i in range(2)])
    elif f == 'q_conj':
        _eq_rows(c, 'rows', o.q_conj(V), [o.q_conj(V[i]) for i in range(2)])
    else:
        _eq_rows(c, 'rows', o.q_norm(V), [o.q_norm(V[i]) for i in range(2)])


# ----------------------------------------------------------------------------------------- metrics
@contract('C07', 'metrics', variants=[dict(f=f) for f in ('chordal', 'qdist', 'qeip', 'rmse')],
          feas_timeout_ms=1000, no_safety=True, budget_s=300,
          functions=['metrics.chordal', 'metrics.qdist', 'metrics.qeip', 'metrics.qcip', 'metrics.qad', 'metrics.euclidean', 'metrics.rmse'])
def c_metrics(c):
    m = c.ahrs.utils.metrics
    f = getattr(m, c.p['f'])
    name = c.p['f']
    if name == 'chordal':
        p, q, r, s = (c.unit_quat(n) for n in 'pqrs')
        A = np.array([mat_of_quat(p), mat_of_quat(q)]); B = np.array([mat_of_quat(r), mat_of_quat(s)])
        b = f(A, B); singles = [f(A[i], B[i]) for i in range(2)]
        _eq_rows(c, 'rows', b, singles)
        return
    if name in ('euclidean', 'rmse'):
        X, Y = c.reals('X', (2, 3)), c.reals('Y', (2, 3))
        if name == 'euclidean':
            for v in list(X.ravel()) + list(Y.ravel()):
                c.assume(And(ge(v, -PI), le(v, PI)))
        b = f(X, Y); singles = [f(X[i], Y[i]) for i in range(2)]
        _eq_rows(c, 'rows', b, singles)
        return
    # non-normalised rows: positive scale times a unit quaternion (so every normalisation in the code is visible)
    sc = [c.real(f'k{i}') for i in range(4)]
    for k in sc:
        c.assume(gt(k, 0))
    P = np.array([sc[0] * c.unit_quat('p'), sc[1] * c.unit_quat('r')]); Q = np.array([sc[2] * c.unit_quat('q'), sc[3] * c.unit_quat('s')])
    singles = []
    for i in range(2):
        # the single-item functions return exactly 0 inside their allclose(q1, +-q2) shortcut (unreachable for
        # relative angles >= 1e-4 rad, proved under C18); those paths are excluded here
        r_ = f(P[i], Q[i])
        if isinstance(r_, float) and r_ == 0.0:
            raise Skip()
        singles.append(r_)
    b = f(P, Q)
    if name in ('qcip', 'qad'):
        for i in range(2):
            c.goal(f'rows[{i}].cos', eq(c.cos(b[i]), c.cos(singles[i])))
    else:
        _eq_rows(c, 'rows', b, singles)


# ----------------------------------------------------------------------------------------- estimators
def _am(c, n=2):
    return _rows(c, 'a', n, 3), _rows(c, 'm', n, 3)


@contract('C07', 'Tilt', variants=[dict(rep=r, mag=False) for r in ('quaternion', 'angles', 'rotmat')], cas=False, no_safety=True, feas_timeout_ms=1500,
          functions=['Tilt.__init__', 'Tilt._compute_all', 'Tilt.estimate'])
def c_tilt(c):
    T = c.ahrs.filters.Tilt
    A_, M_ = _am(c)
    mag = M_ if c.p['mag'] else None
    rep = c.p['rep']
    B = T(A_, mag, representation=rep).Q
    S = [T().estimate(A_[i], M_[i] if c.p['mag'] else None, rep) for i in range(2)]
    if rep == 'angles':
        for i in range(2):
            for k in range(3):
                c.goal(f'angles[{i},{k}].cos', eq(c.cos(B[i][k]), c.cos(S[i][k])))
                c.goal(f'angles[{i},{k}].sin', eq(c.sin(B[i][k]), c.sin(S[i][k])))
    else:
        _eq_rows(c, 'rows', B, S)
    one = T(A_[0], M_[0] if c.p['mag'] else None, representation=rep).Q
    if rep != 'angles':
        c.goal_eq('one-sample', np.asarray(one), np.asarray(S[0]))


@contract('C07', 'SAAM', variants=[dict(rep='quaternion'), dict(rep='rotmat')], cas=False, no_safety=True, feas_timeout_ms=1500, functions=['SAAM.__init__', 'SAAM._compute_all', 'SAAM.estimate'])
def c_saam(c):
    S_ = c.ahrs.filters.SAAM
    A_, M_ = _am(c)
    obj = S_(A_, M_, representation=c.p['rep'])
    singles = [S_().estimate(A_[i], M_[i]) for i in range(2)]
    _eq_rows(c, 'Q', obj.Q, singles)
    one = S_(A_[0], M_[0], representation=c.p['rep'])
    c.goal_eq('one-sample', one.Q, singles[0])
    if c.p['rep'] == 'rotmat':
        _eq_rows(c, 'A', obj.A, [c.ahrs.Quaternion(s).to_DCM() for s in singles])


HEAVY_LOOPED = ('FQA', 'AQUA')
LOOPED = {
    'TRIAD.rotmat': lambda c, A_, M_: (c.ahrs.filters.TRIAD(A_, M_).A, lambda a, m: c.ahrs.filters.TRIAD().estimate(a, m, 'rotmat')),
    'TRIAD.quaternion': lambda c, A_, M_: (c.ahrs.filters.TRIAD(A_, M_, representation='quaternion').A,
                                           lambda a, m: c.ahrs.filters.TRIAD().estimate(a, m, 'quaternion')),
    'TRIAD.ENU': lambda c, A_, M_: (c.ahrs.filters.TRIAD(A_, M_, frame='ENU').A,
                                    lambda a, m: c.ahrs.filters.TRIAD(frame='ENU').estimate(a, m)),
    'FAMC': lambda c, A_, M_: (c.ahrs.filters.FAMC(A_, M_).Q, lambda a, m: c.ahrs.filters.FAMC().estimate(a, m)),
    'FQA': lambda c, A_, M_: (c.ahrs.filters.FQA(A_, M_).Q, lambda a, m: c.ahrs.filters.FQA().estimate(a.copy(), m.copy())),
    'AQUA': lambda c, A_, M_: (c.ahrs.filters.AQUA(acc=A_, mag=M_).Q, lambda a, m: c.ahrs.filters.AQUA().estimate(a, m)),
}


@contract('C07', 'looped-estimator', variants=[dict(est=k) for k in LOOPED if k not in HEAVY_LOOPED], optional=True, budget_s=400, feas_timeout_ms=1000, cas=False,
          no_safety=True, max_paths=300,
          functions=['TRIAD.__init__', 'TRIAD._compute_all', 'FAMC._compute_all', 'FQA._compute_all', 'AQUA._compute_all'])
def c_looped(c):
    """constructor over N samples == per-sample estimate with the same options; one sample == one-row batch"""
    A_, M_ = _am(c, 1)
    B, single = LOOPED[c.p['est']](c, A_, M_)
    s0 = single(A_[0], M_[0])
    _eq_rows(c, 'rows', B, [s0])
    B1, _ = LOOPED[c.p['est']](c, A_[0], M_[0])
    c.goal_eq('one-sample', np.asarray(B1), np.asarray(s0))


@contract('C07', 'from_DCM.thorough', variants=[dict(method=m) for m in ('chiaverini', 'sarabandi')], cas=False, feas_timeout_ms=1500,
          thorough_only=True, optional=True, budget_s=3000, functions=['QuaternionArray.from_DCM'])
def c_from_dcm_t(c):
    c_from_dcm(c)


@contract('C07', '3d-vs-2d.thorough', variants=[dict(f='chiaverini')], cas=False, feas_timeout_ms=1500, thorough_only=True,
          optional=True, budget_s=3000, functions=['orientation.chiaverini'])
def c_3d_t(c):
    c_3d(c)


@contract('C07', 'metrics.thorough', variants=[dict(f=f) for f in ('qcip', 'qad', 'euclidean')], feas_timeout_ms=1000,
          no_safety=True, thorough_only=True, optional=True, budget_s=3000, functions=['metrics.qcip', 'metrics.qad', 'metrics.euclidean'])
def c_metrics_t(c):
    c_metrics(c)


@contract('C07', 'Tilt.thorough', variants=[dict(rep=r, mag=True) for r in ('quaternion', 'angles', 'rotmat')], cas=False,
          no_safety=True, feas_timeout_ms=1500, thorough_only=True, optional=True, budget_s=3000, functions=['Tilt._compute_all'])
def c_tilt_t(c):
    c_tilt(c)


@contract('C07', 'looped-estimator.thorough', variants=[dict(est=k) for k in HEAVY_LOOPED], optional=True, budget_s=3000,
          feas_timeout_ms=1000, cas=False, no_safety=True, max_paths=2000, thorough_only=True, functions=['FQA._compute_all', 'AQUA._compute_all'])
def c_looped_t(c):
    c_looped(c)


@contract('C07', 'FLAE.method-forwarded', variants=[dict(method=m, n=n) for m in ('symbolic', 'eig', 'newton') for n in (1, 2)],
          functions=['FLAE.__init__', 'FLAE._compute_all'], no_crosscheck=True)
def c_flae_fwd(c):
    """the constructor's `method` reaches estimate() on the one-sample and on the N-sample path (call-forwarding contract:
    estimate is replaced by a recording stub, so this holds for every input)"""
    F = c.ahrs.filters.FLAE
    seen = []
    real = F.estimate

    def stub(self, acc, mag, method='symbolic'):
        seen.append(method)
        return np.array([1.0, 0.0, 0.0, 0.0])
    F.estimate = stub
    try:
        acc = c.arr([[0.1, 0.2, 9.7], [0.3, -0.1, 9.6]][:c.p['n']])
        mag = c.arr([[20.0, 1.0, 40.0], [19.0, 2.0, 41.0]][:c.p['n']])
        if c.p['n'] == 1:
            acc, mag = acc[0], mag[0]
        F(acc, mag, method=c.p['method'])
    finally:
        F.estimate = real
    c.goal('forwarded', len(seen) == c.p['n'] and all(s == c.p['method'] for s in seen))


EXCLUSIONS = ["from_DCM / 3d-vs-2d with the closed-form methods: |q_w| >= 5e-7 (rotation angle <= pi - 1e-6, as in C02)",
              "metrics qdist/qeip/qcip/qad: the single-item allclose shortcut paths (unreachable for relative angles >= 1e-4, see C18)"]
NOT_COVERED = ["N-sample constructors of the eig/iterative estimators (Davenport, QUEST, FLAE, OLEQ) beyond option forwarding",
               "N > 2 rows (A-ROW: vectorised NumPy operations act row-wise identically for every N)",
               "itzhack through QuaternionArray(DCM=...) (np.linalg.eig)"]


@contract('C07', 'metrics.batch-scale-invariant', variants=[dict(f=f) for f in ('qdist', 'qeip', 'qcip', 'qad')],
          feas_timeout_ms=1000, no_safety=True, budget_s=300,
          functions=['metrics.qdist', 'metrics.qeip', 'metrics.qcip', 'metrics.qad'])
def c_metrics_scale(c):
    """the N-row branch normalises each argument by its OWN norms: scaling either input by a positive factor changes nothing
    (this is what makes the batch path agree with the single-item path on non-normalised rows)"""
    m = c.ahrs.utils.metrics
    f = getattr(m, c.p['f'])
    k, j = c.real('k'), c.real('j')
    c.assume(And(gt(k, 0), gt(j, 0)))
    p, q = c.unit_quat('p'), c.unit_quat('q')
    P1, Q1 = np.array([p]), np.array([q])
    d1 = f(P1, Q1)[0]
    d2 = f(k * P1, j * Q1)[0]
    if c.p['f'] in ('qcip', 'qad'):
        c.goal('scale-invariant', eq(c.cos(d1), c.cos(d2)))
    else:
        c.goal('scale-invariant', eq(d1, d2))


# ---- integer-typed batches (seed C07-2).  The int/float dtype of a NumPy buffer is invisible to the symbolic engine (DESIGN 2.1):
# "batch = single, row by row" is additionally checked at concrete points for integer-typed N-row inputs.  Concrete, never proved.
_INT_BATCH = ('Tilt', 'Tilt.acc-only', 'SAAM', 'FAMC', 'FQA', 'QUEST', 'Davenport', 'FLAE')


@contract('C07', 'integer-batch.concrete', variants=[dict(est=k, rep=r) for k in _INT_BATCH for r in
                                                     (('quaternion', 'angles', 'rotmat') if k.startswith('Tilt') else ('quaternion',))],
          concrete_points=[dict(s=1.0), dict(s=2.0), dict(s=3.0)], tol=1e-9,
          functions=[k.split('.')[0] + '._compute_all' for k in _INT_BATCH])
def c_int_batch(c):
    """concrete points (NOT a proof): an integer-typed N-row batch gives, on each row, what the single-sample call gives on that row as floats"""
    name, rep = c.p['est'], c.p['rep']
    cls = getattr(c.ahrs.filters, name.split('.')[0])
    rng = np.random.default_rng(int(c.real('s')))
    # integer dtype, gravity mostly along +z, never exactly level (that pose is SAAM's recorded finding KF-C03-SAAM-level)
    A = rng.integers(1, 5, (4, 3)) * rng.choice([-1, 1], (4, 3)); A[:, 2] = rng.integers(6, 12, 4)
    M = rng.integers(-9, 10, (4, 3)); M[:, 0] = rng.integers(15, 25, 4); M[:, 2] = rng.integers(30, 45, 4)
    kw = dict(representation=rep) if name.startswith('Tilt') else {}
    if name == 'Tilt.acc-only':
        batch = cls(acc=A.copy(), **kw).Q
        rows = [cls().estimate(A[i].astype(float), None, **kw) for i in range(len(A))]
    else:
        batch = cls(acc=A.copy(), mag=M.copy(), **kw).Q
        rows = [cls().estimate(A[i].astype(float), M[i].astype(float), **kw) for i in range(len(A))]
    batch = np.asarray(batch)
    c.goal('real', bool(np.all(np.abs(np.imag(batch)) <= 1e-12)))
    batch = np.real(batch).astype(float)
    c.goal('one-per-row', batch.shape[0] == len(A))
    for i, r in enumerate(rows):
        c.goal_eq(f'row{i}', batch[i], np.real(np.asarray(r)).astype(float))
