"""C12 -- SLERP follows the shortest geodesic at constant speed; NaN gaps filled along it."""
import math
import numpy as np
from rvc.api import *

THR = 0.9995


def _slerp(c, which):
    if which == 'quaternion':
        return c.ahrs.common.quaternion.slerp
    return c.ahrs.common.orientation.slerp


@contract('C12', 'slerp.spherical', variants=[dict(copy=cp, sign=sg) for cp in ('quaternion', 'orientation') for sg in ('+', '-')],
          functions=['quaternion.slerp', 'orientation.slerp'], budget_s=500)
def c_spherical(c):
    """spherical branch (|p.q| <= 0.9995): unit interpolant; starts at p, ends at q' = +-q (the nearer one); the angle
    from p grows as t*Omega and the angle to q' shrinks as (1-t)*Omega (minor arc, constant speed); q -> -q changes nothing"""
    f = _slerp(c, c.p['copy'])
    p, q = c.unit_quat('p'), c.unit_quat('q')
    t = c.real('t')
    c.assume(And(ge(t, 0), le(t, 1)))
    cd = dot(p, q)
    if c.p['sign'] == '+':
        c.assume(And(ge(cd, 0), le(cd, THR)))
        qn, cdn = q, cd
    else:
        c.assume(And(lt(cd, 0), ge(cd, -THR)))
        qn, cdn = -q, cd * -1.0
    ts = np.array([0.0, t, 1.0], dtype=object) if c.symbolic else np.array([0.0, t, 1.0])
    R = f(p.copy(), q.copy(), ts)
    c.goal_shape('shape', R, (3, 4))
    c.goal_eq('start', R[0], p)
    c.goal_eq('end', R[2], qn)
    r = R[1]
    c.goal('unit', eq(dot(r, r), 1))
    Om = c.np.arccos(cdn)
    c.goal('speed: r.p = cos(t*Omega)', eq(dot(r, p), c.cos(Om * t)))
    c.goal("speed: r.q' = cos((1-t)*Omega)", eq(dot(r, qn), c.cos(Om - Om * t)))
    # q -> -q: both sign cases prove the same characterisation of r(t) (unit, angle t*Omega from p, angle (1-t)*Omega
    # from the nearer of +-q, Omega = arccos|p.q| < pi), which determines r(t) uniquely and does not mention the sign
    # (no observed values: cos(t*Omega) is an abstract pair in the model, so numbers differ from CPython's)


@contract('C12', 'slerp.lerp-branch', variants=[dict(copy='quaternion'), dict(copy='orientation')],
          functions=['quaternion.slerp', 'orientation.slerp'])
def c_lerp(c):
    """nearly parallel endpoints (|p.q| > 0.9995): normalised linear interpolation -- unit, endpoints, minor arc"""
    f = _slerp(c, c.p['copy'])
    p, q = c.unit_quat('p'), c.unit_quat('q')
    t = c.real('t')
    c.assume(And(ge(t, 0), le(t, 1)))
    cd = dot(p, q)
    c.assume(gt(cd, THR))
    ts = np.array([0.0, t, 1.0], dtype=object) if c.symbolic else np.array([0.0, t, 1.0])
    v = p + t * (q - p)
    c.lemma('|p+t(q-p)|^2', eq(dot(v, v), 1 - 2 * t * (1 - t) * (1 - cd)))
    c.lemma('t(1-t)<=1/4', le(t * (1 - t), 0.25))
    c.lemma('|p+t(q-p)|^2>0.99', gt(dot(v, v), 0.99))
    R = f(p.copy(), q.copy(), ts)
    c.goal_eq('start', R[0], p)
    c.goal_eq('end', R[2], q)
    r = R[1]
    c.goal('unit', eq(dot(r, r), 1))
    c.observe('r', r)


@contract('C12', 'slerp.lerp-branch.antipodal', variants=[dict(copy='quaternion'), dict(copy='orientation')],
          functions=['quaternion.slerp', 'orientation.slerp'])
def c_lerp_anti(c):
    """nearly antipodal endpoints (p.q < -0.9995): the path goes to the NEARER endpoint -q (normalised LERP towards -q)"""
    f = _slerp(c, c.p['copy'])
    p, q = c.unit_quat('p'), c.unit_quat('q')
    t = c.real('t')
    c.assume(And(ge(t, 0), le(t, 1)))
    cd = dot(p, q)
    c.assume(lt(cd, -THR))
    ts = np.array([0.0, t, 1.0], dtype=object) if c.symbolic else np.array([0.0, t, 1.0])
    v = p + t * (-q - p)
    c.lemma('|p+t(-q-p)|^2', eq(dot(v, v), 1 - 2 * t * (1 - t) * (1 + cd)))
    c.lemma('t(1-t)<=1/4', le(t * (1 - t), 0.25))
    c.lemma('|p+t(-q-p)|^2>0.99', gt(dot(v, v), 0.99))
    R = f(p.copy(), q.copy(), ts)
    c.goal_eq('start', R[0], p)
    c.goal_eq('end=-q', R[2], -q)
    r = R[1]
    c.goal('unit', eq(dot(r, r), 1))
    c.goal('on-the-near-side: r.p > 0', gt(dot(r, p), 0))


def _jump_cases():
    out = []
    for n in range(2, 7):
        for mask in range(2 ** n):
            out.append(dict(n=float(n), mask=float(mask)))
    return out


@contract('C12', 'remove_jumps.bounded', concrete_points=_jump_cases(), bounded='every sign-flip pattern of every sequence length N <= 6 '
          '(124 cases) on one smooth trajectory; NOT a proof', functions=['QuaternionArray.remove_jumps', 'orientation.q_correct'])
def c_jumps(c):
    """BOUNDED stand-in: after remove_jumps / q_correct no consecutive pair is more than 1 apart and every row is +- the original"""
    import ahrs
    n, mask = int(c.real('n')), int(c.real('mask'))
    ang = np.linspace(0.1, 0.1 + 0.2 * (n - 1), n)
    base = np.c_[np.cos(ang / 2), np.sin(ang / 2) * 0.6, np.sin(ang / 2) * 0.0, np.sin(ang / 2) * 0.8]
    signs = np.array([-1.0 if (mask >> i) & 1 else 1.0 for i in range(n)])
    flipped = base * signs[:, None]
    QA = ahrs.QuaternionArray(flipped.copy())
    QA.remove_jumps()
    out = QA.array
    c.goal('no-jump', bool(np.all(np.linalg.norm(np.diff(out, axis=0), axis=1) <= 1.0)))
    c.goal('same-rotations', bool(np.all(np.isclose(np.abs(np.sum(out * base, axis=1)), 1.0))))
    out2 = ahrs.common.orientation.q_correct(flipped.copy())
    c.goal('q_correct.no-jump', bool(np.all(np.linalg.norm(np.diff(out2, axis=0), axis=1) <= 1.0)))


def _nan_cases():
    out = []
    for n in range(3, 8):
        for i in range(1, n - 1):
            for j in range(i, n - 1):
                out.append(dict(n=float(n), i=float(i), j=float(j)))
    return out


def _spec_slerp(p, q, t):
    d = float(np.dot(p, q))
    if d < 0:
        q, d = -q, -d
    if d > 0.9995:
        r = p + t * (q - p)
        return r / np.linalg.norm(r)
    om = np.arccos(d)
    return (np.sin((1 - t) * om) * p + np.sin(t * om) * q) / np.sin(om)


@contract('C12', 'slerp_nan.bounded', concrete_points=_nan_cases(), bounded='every interior NaN run (position, length) of every sequence '
          'length N <= 7 (50 cases) on one trajectory; NOT a proof', functions=['QuaternionArray.slerp_nan', 'core.get_nan_intervals'])
def c_nan(c):
    """BOUNDED stand-in: NaN rows are filled with the spherical interpolants between the neighbouring valid rows (independent
    formula sin((1-t)W)p + sin(tW)q over sin W), valid rows stay unchanged"""
    import ahrs
    n, i, j = int(c.real('n')), int(c.real('i')), int(c.real('j'))
    ang = np.linspace(0.2, 0.2 + 0.35 * (n - 1), n)
    base = np.c_[np.cos(ang / 2), np.sin(ang / 2) * 0.6, np.sin(ang / 2) * 0.0, np.sin(ang / 2) * 0.8]
    data = base.copy()
    data[i:j + 1] = np.nan
    QA = ahrs.QuaternionArray.__new__(ahrs.QuaternionArray, base.copy())
    QA.array[i:j + 1] = np.nan
    out = QA.slerp_nan(inplace=False)
    ok_valid = all(np.allclose(out[k], base[k], atol=1e-12) for k in range(n) if not (i <= k <= j))
    ts = np.linspace(0, 1, (j - i + 1) + 2)[1:-1]
    ok_fill = all(np.allclose(out[i + k], _spec_slerp(base[i - 1], base[j + 1], ts[k]), atol=1e-9) for k in range(j - i + 1))
    c.goal('valid-rows-unchanged', ok_valid)
    c.goal('gap=slerp', ok_fill)
    c.goal('no-nan-left', not np.isnan(out).any())


NOT_COVERED = ["LERP branch: proportionality of the angle to the weight (only approximate there; unit norm, endpoints and "
               "betweenness are proved)",
               "slerp_nan / remove_jumps / q_correct / get_nan_intervals as for-all-lengths claims (index logic over arrays): only the "
               "bounded units remove_jumps.bounded and slerp_nan.bounded, which are not counted as proved"]
