"""C13 -- a dropped-out sensor sample never corrupts a recursive filter.

For each recursive filter step with the accelerometer (resp. magnetometer, gyroscope) sample equal to the concrete zero
vector and everything else symbolic: every path either raises ValueError or returns a unit quaternion, and every
division / square root on the path is safe.  With the loop schema (C06) this gives "no NaN/inf now or later" for every
dropout position, length and combination."""
import numpy as np
from rvc.api import *

F = lambda c: c.ahrs.filters

STEPS = {
    'Madgwick.updateIMU': (False, lambda c, q, g, a, m: F(c).Madgwick().updateIMU(q, g, a)),
    'Madgwick.updateMARG': (True, lambda c, q, g, a, m: F(c).Madgwick().updateMARG(q, g, a, m)),
    'Mahony.updateIMU': (False, lambda c, q, g, a, m: F(c).Mahony().updateIMU(q, g, a)),
    'Mahony.updateMARG': (True, lambda c, q, g, a, m: F(c).Mahony().updateMARG(q, g, a, m)),
    'AQUA.updateIMU': (False, lambda c, q, g, a, m: F(c).AQUA().updateIMU(q, g, a)),
    'AQUA.updateMARG': (True, lambda c, q, g, a, m: F(c).AQUA().updateMARG(q, g, a, m)),
    'EKF.update.IMU': (False, lambda c, q, g, a, m: F(c).EKF().update(q, g, a)),
    'Fourati.update': (True, lambda c, q, g, a, m: F(c).Fourati().update(q, g, a, m)),
    'ROLEQ.update': (True, lambda c, q, g, a, m: F(c).ROLEQ().update(q, g, a, m)),
}
DROPS = ('acc', 'mag', 'gyr', 'acc+mag')


def _variants(aqua):
    out = []
    for k, (mag, _) in STEPS.items():
        if k.startswith('AQUA') != aqua:
            continue
        for d in DROPS:
            if 'mag' in d and not mag:
                continue
            out.append(dict(f=k, drop=d))
    return out


@contract('C13', 'dropout', variants=_variants(False), optional=True, feas_timeout_ms=1000, budget_s=300, max_paths=200,
          functions=sorted(STEPS))
def c_dropout(c):
    mag, fn = STEPS[c.p['f']]
    q = c.unit_quat('q')
    drop = c.p['drop']
    zero = lambda: c.arr([0.0, 0.0, 0.0])
    def vec(name):
        v = c.reals(name, 3)
        c.assume(ne(dot(v, v), 0))
        return v
    g = zero() if 'gyr' in drop else vec('g')
    a = zero() if 'acc' in drop else vec('a')
    m = (zero() if 'mag' in drop else vec('m')) if mag else None
    try:
        out = fn(c, q.copy(), g, a, m)
    except ValueError:
        c.goal('refused-with-ValueError', True)
        return
    out = np.asarray(out)
    c.goal_shape('shape', out, (4,))
    if out.shape == (4,):
        c.goal('unit', eq(dot(out, out), 1))
    c.observe('q', out)


@contract('C13', 'dropout.nosafety', variants=_variants(True), optional=True, feas_timeout_ms=1000, budget_s=300, max_paths=200,
          no_safety=True, functions=['AQUA.updateIMU', 'AQUA.updateMARG'])
def c_dropout_aqua(c):
    """AQUA: unit-norm / ValueError claim only; the exactly-inverted-gravity 0/0 of its delta quaternion is the known finding
    KF-C13-AQUA-inverted-gravity (replayed on every run)"""
    c_dropout(c)


@contract('C13', 'initial-attitude', variants=[dict(f='acc2q'), dict(f='Madgwick.batch'), dict(f='Mahony.batch')], no_crosscheck=True,
          functions=['orientation.acc2q', 'Madgwick._compute_all', 'Mahony._compute_all'])
def c_initial(c):
    """a dropout on the FIRST sample of an IMU history: the initial attitude comes from acc2q, which must return the
    identity for a zero accelerometer sample (and the batch run must then produce unit quaternions)"""
    zero = c.arr([0.0, 0.0, 0.0])
    if c.p['f'] == 'acc2q':
        q = c.ahrs.common.orientation.acc2q(zero)
        c.goal_eq('identity', np.asarray(q), c.arr([1.0, 0.0, 0.0, 0.0]))
        return
    F_ = getattr(c.ahrs.filters, c.p['f'].split('.')[0])
    g = c.reals('g', (2, 3)); a1 = c.reals('a', 3)
    c.assume(ne(dot(a1, a1), 0)); c.assume(ne(dot(g[1], g[1]), 0)); c.assume(ne(dot(g[0], g[0]), 0))
    acc = np.array([zero, a1])
    Q = F_(gyr=g, acc=acc).Q
    c.goal_eq('row0=identity', np.asarray(Q[0]), c.arr([1.0, 0.0, 0.0, 0.0]))
    c.goal('row1.unit', eq(dot(Q[1], Q[1]), 1))


NOT_COVERED = ["estimates return to within normal tolerance after the dropout ends (a convergence statement, see C05)",
               "FKF, UKF, Complementary (batch-only / out of reach of the engine): FKF and UKF divide by the accelerometer norm "
               "without a guard (acc / np.linalg.norm(acc))"]
