"""C18 -- rotation metrics: closed forms in c = |p.q| = cos(t/2), symmetry, sign- and bi-invariance, zero set."""
import math
import numpy as np
from rvc.api import *

C0 = math.cos(5e-5)          # relative angle t >= 1e-4 rad  <=>  |p.q| <= cos(t/2) <= C0

MAT = ['chordal', 'identity_deviation', 'angular_distance']
QUAT = ['qdist', 'qeip', 'qcip', 'qad']


def _sq(x):
    return x * x


def _closed_form(c, name, d, cdot):
    """d = metric value, cdot = p.q ; emits the closed-form goals of the property (|c| stated without If-terms:
    X = 1-|c|  <=>  (X-1+c)(X-1-c) = 0 and X <= 1-c and X <= 1+c)"""
    if name in ('chordal', 'identity_deviation'):
        c.goal('nonneg', ge(d, 0))
        c.goal('closed-form: d^2 = 8(1-c^2)', eq(_sq(d), 8 * (1 - cdot * cdot)))
    elif name == 'angular_distance':
        c.goal('nonneg', ge(d, 0))
    elif name == 'qdist':
        c.goal('nonneg', ge(d, 0))
        X = _sq(d) / 2.0
        c.goal('closed-form: d^2/2 in {1-c, 1+c}', eq((X - 1 + cdot) * (X - 1 - cdot), 0))
        c.goal('closed-form: d^2/2 <= 1-|c|', And(le(X, 1 - cdot), le(X, 1 + cdot)))
    elif name == 'qeip':
        c.goal('nonneg', ge(d, 0))
        c.goal('closed-form: d in {1-c, 1+c}', eq((d - 1 + cdot) * (d - 1 - cdot), 0))
        c.goal('closed-form: d <= 1-|c|', And(le(d, 1 - cdot), le(d, 1 + cdot)))
    elif name == 'qcip':
        cosd = c.cos(d)
        c.goal('closed-form: cos^2 d = c^2', eq(cosd * cosd, cdot * cdot))
        c.goal('closed-form: cos d >= 0', ge(cosd, 0))
        c.goal('range: 0 <= d <= pi/2', And(ge(d, 0), le(d, PI_ / 2)))
    elif name == 'qad':
        c.goal('closed-form: cos d = 2c^2-1', eq(c.cos(d), 2 * cdot * cdot - 1))
        c.goal('range: 0 <= d <= pi', And(ge(d, 0), le(d, PI_)))


@contract('C18', 'matrix-metric', variants=[dict(f=f) for f in MAT], budget_s=600, optional=True,
          functions=['metrics.chordal', 'metrics.identity_deviation', 'metrics.angular_distance', 'DCM.log',
                     'metrics._rotations_guard_clauses'])
def c_mat(c):
    m = c.ahrs.utils.metrics
    p, q = c.unit_quat('p'), c.unit_quat('q')
    cd = dot(p, q)
    c.assume(And(le(cd, C0), ge(cd, -C0)))
    if c.p['f'] == 'angular_distance':
        c.assume(ne(cd, 0))                       # relative angle < pi (the matrix log is defined below pi)
    R1, R2 = mat_of_quat(p), mat_of_quat(q)
    f = getattr(m, c.p['f'])
    d = f(c.track('R1', R1), c.track('R2', R2))
    _closed_form(c, c.p['f'], d, cd)
    if c.p['f'] == 'angular_distance':
        R = R1 @ R2.T
        tr = R[0, 0] + R[1, 1] + R[2, 2]
        c.lemma('cos t = 2c^2-1', eq((tr - 1) / 2.0, 2 * cd * cd - 1))
        t = c.np.arccos((tr - 1) / 2.0)
        c.goal('closed-form: d^2 = 2 t^2', eq(_sq(d), 2 * t * t))
    d2 = f(R2, R1)
    c.goal('symmetric', eq(_sq(d), _sq(d2)))
    d3 = f(R1, mat_of_quat(-q))
    c.goal('sign-invariant', eq(_sq(d), _sq(d3)))
    c.observe('d', d)


@contract('C18', 'matrix-metric.bi-invariant', variants=[dict(f=f, side=s) for f in ('chordal', 'identity_deviation') for s in ('left', 'right')], budget_s=200,
          functions=['metrics.chordal', 'metrics.identity_deviation', 'metrics.angular_distance'])
def c_mat_inv(c):
    m = c.ahrs.utils.metrics
    p, q, a = c.unit_quat('p'), c.unit_quat('q'), c.unit_quat('a')
    cd = dot(p, q)
    c.assume(And(le(cd, C0), ge(cd, -C0)))
    if c.p['f'] == 'angular_distance':
        c.assume(ne(cd, 0))
    R1, R2, A = mat_of_quat(p), mat_of_quat(q), mat_of_quat(a)
    f = getattr(m, c.p['f'])
    d = f(R1, R2)
    d2 = f(A @ R1, A @ R2) if c.p['side'] == 'left' else f(R1 @ A, R2 @ A)
    c.goal('invariant', eq(_sq(d), _sq(d2)))


T2 = 1.0021e-10          # > (1e-8 + 1e-5)^2


def _shortcut_unreachable(c, p, q, cd, sign):
    """on a path where np.allclose(sign*p, q) holds: every |sign*p_i - q_i| <= 1e-8 + 1e-5|q_i| <= 1.001e-5, which
    contradicts |sign*p - q|^2 = 2 - 2 sign p.q >= 2 - 2 cos(5e-5) = 2.5e-9"""
    for i in range(4):
        c.lemma(f'q[{i}]^2<=1', le(q[i] * q[i], 1))
    ds = [(-p[i] - q[i]) if sign < 0 else (p[i] - q[i]) for i in range(4)]
    for i in range(4):
        c.lemma(f'd[{i}]^2-small', le(ds[i] * ds[i], T2))
    c.lemma('|d|^2', eq(sum(x * x for x in ds), 2 - 2 * sign * cd))
    c.goal('allclose-shortcut-unreachable', False)


def _qcall(c, f, p, q, cd, tag=''):
    """call a quaternion metric.  The contract evaluates the function's own two allclose tests first (same
    conditions, so the function's decisions are the cached ones): on a shortcut path it states that the path
    is unreachable for relative angles >= 1e-4 rad and returns None"""
    if c.np.allclose(p, q):
        f(p, q)
        _shortcut_unreachable(c, p, q, cd, +1)
        return None
    if c.np.allclose(-p, q):
        f(p, q)
        _shortcut_unreachable(c, p, q, cd, -1)
        return None
    return f(p, q)


@contract('C18', 'quaternion-metric', variants=[dict(f=f) for f in QUAT], feas_timeout_ms=1000, budget_s=200,
          functions=['metrics.qdist', 'metrics.qeip', 'metrics.qcip', 'metrics.qad', 'metrics._quaternions_guard_clauses'])
def c_quat(c):
    m = c.ahrs.utils.metrics
    p, q = c.unit_quat('p'), c.unit_quat('q')
    cd = dot(p, q)
    c.assume(And(le(cd, C0), ge(cd, -C0)))
    d = _qcall(c, getattr(m, c.p['f']), c.track('p', p), c.track('q', q), cd)
    if d is None:
        return
    if c.p['f'] == 'qdist':
        # ghost steps: d is the smaller of |p-q| and |p+q| (the same norm terms the function computed)
        r1, r2 = c.np.linalg.norm(p - q), c.np.linalg.norm(p + q)
        c.lemma('d<=|p-q|', And(le(d, r1), ge(d, 0)))
        c.lemma('d<=|p+q|', le(d, r2))
        c.lemma('|p-q|^2', eq(r1 * r1, 2 - 2 * cd))
        c.lemma('|p+q|^2', eq(r2 * r2, 2 + 2 * cd))
        c.lemma('d^2<=|p-q|^2', le(d * d, r1 * r1))
        c.lemma('d^2<=|p+q|^2', le(d * d, r2 * r2))
    _closed_form(c, c.p['f'], d, cd)
    c.observe('d', d)


@contract('C18', 'quaternion-metric.symmetric', variants=[dict(f=f, what=w) for f in QUAT for w in ('swap', 'negate')], feas_timeout_ms=1000, budget_s=1500, optional=True, thorough_only=True,
          functions=['metrics.qdist', 'metrics.qeip', 'metrics.qcip', 'metrics.qad'])
def c_quat_sym(c):
    m = c.ahrs.utils.metrics
    p, q = c.unit_quat('p'), c.unit_quat('q')
    cd = dot(p, q)
    c.assume(And(le(cd, C0), ge(cd, -C0)))
    f = getattr(m, c.p['f'])
    d = _qcall(c, f, p, q, cd)
    if d is None:
        return
    d2 = _qcall(c, f, q, p, cd) if c.p['what'] == 'swap' else _qcall(c, f, p, -q, -cd)
    if d2 is None:
        return
    if c.p['f'] in ('qcip', 'qad'):
        c.goal('same', eq(c.cos(d), c.cos(d2)))
    else:
        c.goal('same', eq(d, d2))


@contract('C18', 'quaternion-metric.bi-invariant', variants=[dict(f=f, side=s) for f in QUAT for s in ('left', 'right')], feas_timeout_ms=1000, budget_s=1500, optional=True, thorough_only=True,
          functions=['metrics.qdist', 'metrics.qeip', 'metrics.qcip', 'metrics.qad'])
def c_quat_inv(c):
    m = c.ahrs.utils.metrics
    p, q, a = c.unit_quat('p'), c.unit_quat('q'), c.unit_quat('a')
    cd = dot(p, q)
    c.assume(And(le(cd, C0), ge(cd, -C0)))
    P2, Q2 = (qmul(a, p), qmul(a, q)) if c.p['side'] == 'left' else (qmul(p, a), qmul(q, a))
    c.lemma('(a p).(a q) = p.q', eq(dot(P2, Q2), cd))
    c.lemma('|a p| = 1', eq(dot(P2, P2), 1))
    c.lemma('|a q| = 1', eq(dot(Q2, Q2), 1))
    f = getattr(m, c.p['f'])
    d = _qcall(c, f, p, q, cd)
    if d is None:
        return
    P2 = c.summarize('ap', P2, lambda x: And(eq(dot(x, x), 1), eq(dot(x, Q2), cd)))
    Q2 = c.summarize('aq', Q2, lambda x: And(eq(dot(x, x), 1), eq(dot(P2, x), cd)))
    d2 = _qcall(c, f, P2, Q2, cd)
    if d2 is None:
        return
    if c.p['f'] in ('qcip', 'qad'):
        c.goal('invariant', eq(c.cos(d), c.cos(d2)))
    else:
        c.goal('invariant', eq(d, d2))


@contract('C18', 'quaternion-metric.invariance-of-|p.q|', functions=[])
def c_dot_inv(c):
    """ghost lemmas: the quaternion metrics are proved (unit quaternion-metric) to be functions of |p.q| alone, and |p.q| is
    symmetric, unchanged under q -> -q and under left/right multiplication of both arguments by a unit quaternion --
    which gives symmetry, sign- and bi-invariance of qdist, qeip, qcip, qad for all inputs"""
    p, q, a = c.unit_quat('p'), c.unit_quat('q'), c.unit_quat('a')
    cd = dot(p, q)
    c.goal('symmetric', eq(dot(q, p), cd))
    c.goal('negation', eq(dot(p, -q) * dot(p, -q), cd * cd))
    c.goal('left', eq(dot(qmul(a, p), qmul(a, q)), cd))
    c.goal('right', eq(dot(qmul(p, a), qmul(q, a)), cd))
    c.goal('left.unit', And(eq(dot(qmul(a, p), qmul(a, p)), 1), eq(dot(qmul(a, q), qmul(a, q)), 1)))
    c.goal('right.unit', And(eq(dot(qmul(p, a), qmul(p, a)), 1), eq(dot(qmul(q, a), qmul(q, a)), 1)))


@contract('C18', 'zero-set', variants=[dict(f=f) for f in MAT + QUAT], budget_s=300, optional=True,
          functions=['metrics.chordal', 'metrics.identity_deviation', 'metrics.angular_distance', 'metrics.qdist',
                     'metrics.qeip', 'metrics.qcip', 'metrics.qad'])
def c_zero(c):
    """the distance of a rotation to itself (and to its negative quaternion) is exactly zero"""
    m = c.ahrs.utils.metrics
    p = c.unit_quat('p')
    f = getattr(m, c.p['f'])
    if c.p['f'] in MAT:
        d = f(mat_of_quat(p), mat_of_quat(-p))
    else:
        d = f(p, -p)
    c.goal('d(R,R)=0', eq(d, 0))
    c.observe('d', d)


NOT_COVERED = ["triangle inequality (a statement about arccos over S^3; no contract within reach)",
               "relative angles below 1e-4 rad (the quaternion metrics' own allclose shortcut returns exactly 0 there)",
               "N-row inputs (proved equal to the single-item functions under C07)"]
EXCLUSIONS = ["|p.q| <= cos(5e-5): relative rotation angle t >= 1e-4 rad (the property's own bound)",
              "angular_distance: p.q != 0 (relative angle < pi)"]
