"""C08 -- gyro integration: closed form exact for constant rates, series of the stated order, first-order dead reckoning."""
import math
from math import factorial
import numpy as np
from rvc.api import *


def _first_order(q, w, dt, sign=1.0):
    """normalise(q + dt/2 * q (x) (0, w)), or for sign < 0 normalise(q + dt/2 * (0, -w) (x) q)  (specification)"""
    p = np.array([0.0, sign * w[0], sign * w[1], sign * w[2]], dtype=object if SYMBOLIC else float)
    qd = qmul(q, p) if sign > 0 else qmul(p, q)
    r = np.array([q[i] + 0.5 * dt * qd[i] for i in range(4)], dtype=object if SYMBOLIC else float)
    n = sqrtv(dot(r, r))
    return r / n


@contract('C08', 'closed-form.step', functions=['AngularRate.update'])
def c_closed(c):
    """one closed-form step is exactly q (x) (cos(|w|dt/2), sin(|w|dt/2) w/|w|)"""
    F = c.ahrs.filters.AngularRate
    q = c.unit_quat('q'); w = c.reals('w', 3); dt = c.real('dt')
    c.assume(ne(dot(w, w), 0)); c.assume(gt(dt, 0))
    out = F().update(q, w, method='closed', dt=dt)
    n = c.np.linalg.norm(w)
    half = n * dt / 2.0
    ch, sh = c.cos(half), c.sin(half)
    r = np.array([ch, sh * w[0] / n, sh * w[1] / n, sh * w[2] / n])
    c.goal_eq('q_new=q*r', out, qmul(q, r))
    c.goal('unit', eq(dot(out, out), 1))


@contract('C08', 'closed-form.composition', functions=[])
def c_compose(c):
    """ghost lemma for the N-step claim: rotations about one axis compose by adding angles, so with the loop schema
    (C06) N closed-form steps at constant rate give q0 (x) r(N*theta): r(a) (x) r(b) = r(a+b)"""
    u = c.unit_vec('u')
    a_, b_ = c.angle('a', -100.0, 100.0), c.angle('b', -100.0, 100.0)
    def r(x):
        return np.array([c.cos(x), c.sin(x) * u[0], c.sin(x) * u[1], c.sin(x) * u[2]])
    c.goal_eq('r(a)r(b)=r(a+b)', qmul(r(a_), r(b_)), r(a_ + b_))


@contract('C08', 'series', variants=[dict(order=k) for k in range(0, 7)], functions=['AngularRate.update'])
def c_series(c):
    """order-k series: A = sum_{i<=k} (dt/2 Omega)^i / i!  (matrix powers), i.e. the degree-k Taylor polynomials of
    cos and sin in x = |w| dt / 2 -- so it agrees with the closed form up to the Taylor remainder O(x^(k+1))"""
    F = c.ahrs.filters.AngularRate
    k = c.p['order']
    q = c.unit_quat('q'); w = c.reals('w', 3); dt = c.real('dt')
    c.assume(ne(dot(w, w), 0)); c.assume(gt(dt, 0))
    x2 = dot(w, w) * dt * dt / 4.0                       # x^2
    c.assume(le(x2, 0.0625))                             # |rate|*dt <= 0.5 (10 rad/s, 0.05 s: the property's range)
    Tc = sum(((-1) ** (i // 2)) * x2 ** (i // 2) / factorial(i) for i in range(0, k + 1, 2))
    Ts_over_x = sum(((-1) ** ((i - 1) // 2)) * x2 ** ((i - 1) // 2) / factorial(i) for i in range(1, k + 1, 2)) if k >= 1 else 0.0
    # A q = Tc q + (Ts/x) (dt/2) Omega q ,  Omega q = q (x) (0, w)
    p = np.array([0.0, w[0], w[1], w[2]], dtype=object if c.symbolic else float)
    Oq = qmul(q, p)
    v = np.array([Tc * q[i] + Ts_over_x * 0.5 * dt * Oq[i] for i in range(4)])
    # ghost lemmas (before the call, so that the constructor's zero-norm test is decided): |T_k q| >= 0.9
    c.lemma('|T_k q|^2', eq(dot(v, v), Tc * Tc + x2 * Ts_over_x * Ts_over_x))
    c.lemma('Tc>=0.9', ge(Tc, 0.9))
    c.lemma('|T_k q|^2>=0.81', ge(dot(v, v), 0.81))
    out = F().update(q, w, method='series', order=k, dt=dt)
    # out = v/|v| stated without a second square root: out is unit, parallel to v and points the same way
    ov = dot(out, v)
    for i in range(4):
        c.goal(f'parallel-to-T_k[{i}]', eq(out[i] * dot(v, v), v[i] * ov))
    c.goal('same-direction', gt(ov, 0))
    c.goal('unit', eq(dot(out, out), 1))


DR = {
    'Madgwick.updateIMU': lambda c, q, w, dt: c.ahrs.filters.Madgwick(Dt=dt if not c.symbolic else 0.01).updateIMU(q, w, c.arr([0.0, 0.0, 0.0]), dt=dt),
    'Madgwick.updateMARG': lambda c, q, w, dt: c.ahrs.filters.Madgwick().updateMARG(q, w, c.arr([0.0, 0.0, 0.0]), c.arr([0.3, 0.1, 0.5]), dt=dt),
    'Mahony.updateIMU': lambda c, q, w, dt: c.ahrs.filters.Mahony().updateIMU(q, w, c.arr([0.0, 0.0, 0.0]), dt=dt),
    'Mahony.updateMARG': lambda c, q, w, dt: c.ahrs.filters.Mahony().updateMARG(q, w, c.arr([0.0, 0.0, 0.0]), c.arr([0.3, 0.1, 0.5]), dt=dt),
    'AQUA.updateIMU': lambda c, q, w, dt: c.ahrs.filters.AQUA().updateIMU(q, w, c.arr([0.0, 0.0, 0.0]), dt=dt),
    'AQUA.updateMARG': lambda c, q, w, dt: c.ahrs.filters.AQUA().updateMARG(q, w, c.arr([0.0, 0.0, 0.0]), c.arr([0.3, 0.1, 0.5]), dt=dt),
    'ROLEQ.attitude_propagation': lambda c, q, w, dt: c.ahrs.filters.ROLEQ().attitude_propagation(q, w, dt),
}


@contract('C08', 'dead-reckoning', variants=[dict(f=k) for k in DR],
          functions=sorted(DR))
def c_dr(c):
    """with a null accelerometer sample (or in the prediction step) the filter advances by the first-order step
    normalise(q + dt/2 q (x) (0, w)) -- AQUA, which estimates the inverse attitude, by normalise(q + dt/2 (0,-w) (x) q)"""
    q = c.unit_quat('q'); w = c.reals('w', 3); dt = c.real('dt')
    c.assume(ne(dot(w, w), 0)); c.assume(And(gt(dt, 0), le(dt, 1)))
    out = DR[c.p['f']](c, q.copy(), w, dt)
    sign = -1.0 if c.p['f'].startswith('AQUA') else 1.0
    c.goal_eq('first-order-step', np.asarray(out), _first_order(q, w, dt, sign))
    c.goal('unit', eq(dot(out, out), 1))


@contract('C08', 'EKF.f', functions=['EKF.f', 'EKF.Omega'])
def c_ekf_f(c):
    """the EKF prediction is the (un-normalised) first-order step q + dt/2 q (x) (0, w)"""
    q = c.unit_quat('q'); w = c.reals('w', 3); dt = c.real('dt')
    c.assume(gt(dt, 0))
    out = c.ahrs.filters.EKF().f(q, w, dt)
    p = np.array([0.0, w[0], w[1], w[2]], dtype=object if c.symbolic else float)
    qd = qmul(q, p)
    c.goal_eq('f', out, np.array([q[i] + 0.5 * dt * qd[i] for i in range(4)]))


NOT_COVERED = ["the O(x^(k+1)) Taylor remainder bound itself (classical; the proof shows the series IS the degree-k Taylor polynomial pair)",
               "angular velocities recovered from a quaternion sequence integrate back to it (first-order accurate only; not an identity over the reals)",
               "AngularRate.integrate_angular_positions (Euler-angle cumulative sum: a different quantity)"]
