"""C02 -- every DCM->quaternion method inverts quaternion->DCM over SO(3).
Input: R = M(q) for a unit quaternion q (A-SO3: every rotation matrix has this form)."""
import numpy as np
from rvc.api import *

I3 = np.identity(3)
W_MIN2 = (5e-7) ** 2      # |w| >= sin(0.5e-6): rotation angle <= pi - 1 micro-radian (the property's own bound)


def _post(c, qq, R, name='q'):
    c.goal_shape(f'{name}.shape', np.asarray(qq), (4,))
    c.goal(f'{name}.unit', eq(dot(qq, qq), 1))
    c.goal_eq(f'M({name})=R', mat_of_quat(qq), R)


def _call(c, how, R, method, **kw):
    a = c.ahrs
    o = a.common.orientation
    if how == 'function':
        f = getattr(o, method)
        if method == 'itzhack':
            return f(R, version=kw.get('version', 3))
        if method == 'sarabandi':
            return f(R, eta=kw.get('threshold', 0.0))
        return f(R)
    if how == 'DCM.to_quaternion':
        return a.DCM(R).to_quaternion(method=method, **kw)
    if how == 'Quaternion(dcm=)':
        return a.Quaternion(dcm=R, method=method, **kw).A
    if how == 'QuaternionArray(DCM=)':
        return a.QuaternionArray(DCM=np.array([R, c.arr(I3)]), method=method, **kw).array[0]
    raise KeyError(how)


CLOSED = ['chiaverini', 'hughes']
import itertools
SHARDS = [''.join(bits) for bits in itertools.product('TF', repeat=4)]
HOWS = ['function', 'DCM.to_quaternion', 'Quaternion(dcm=)', 'QuaternionArray(DCM=)']


@contract('C02', 'shepperd', variants=[dict(how=h) for h in HOWS], cost=5,
          functions=['orientation.shepperd', 'DCM.to_quaternion', 'Quaternion.from_DCM', 'QuaternionArray.from_DCM',
                     'DCM.__new__', 'dcm._assert_SO3'])
def c_shepperd(c):
    """default method: every rotation, including exact half-turns and the identity"""
    q = c.unit_quat('q')
    R = mat_of_quat(q)
    qq = _call(c, c.p['how'], R, 'shepperd')
    _post(c, qq, R)
    c.observe('q', qq)


@contract('C02', 'closed-form', variants=[dict(method=m, how=h) for m in CLOSED for h in HOWS], cost=6,
          functions=['orientation.chiaverini', 'orientation.hughes', 'orientation.sarabandi'])
def c_closed(c):
    """closed-form methods: every rotation angle up to pi - 1 microradian, including arbitrarily small angles"""
    q = c.unit_quat('q')
    c.assume(ge(q[0] * q[0], W_MIN2))
    R = mat_of_quat(q)
    qq = _call(c, c.p['how'], R, c.p['method'])
    _post(c, qq, R)
    c.observe('q', qq)


@contract('C02', 'sarabandi', variants=[dict(how=h, shard=s) for h in HOWS for s in SHARDS], cost=8,
          functions=['orientation.sarabandi'])
def c_sarabandi(c):
    """Sarabandi (threshold 0), sharded over its first four branch decisions"""
    q = c.unit_quat('q')
    c.assume(ge(q[0] * q[0], W_MIN2))
    R = mat_of_quat(q)
    qq = _call(c, c.p['how'], R, 'sarabandi')
    _post(c, qq, R)
    c.observe('q', qq)

NOT_COVERED = ["itzhack version 1 (matrix K2) and whatever the itzhack units leave undischarged (np.linalg.eig is an assumed contract E1/E2)",
               "float-regime clauses (within 1e-12 of identity / of a half-turn) beyond their exact real limits"]
EXCLUSIONS = ["closed-form methods (chiaverini, hughes, sarabandi): |q_w| >= 5e-7, i.e. rotation angle <= pi - 1e-6 rad (the property's own bound)"]


# ----------------------------------------------------------------------------------------- Bar-Itzhack (eig)
def _itzhack_lemmas(c, q):
    """ghost lemmas stated when np.linalg.eig is called inside itzhack (versions 2, 3: matrix K3).  eig itself is an
    ASSUMED dependency contract (E1/E2: real orthonormal eigenbasis of a symmetric matrix); everything derived from
    it here is an obligation: K3 = (4 u u^T - I)/3 with u = (x, y, z, -w), hence every eigenpair has (u.v)^2 in {0, 1}
    and eigenvalue in {1, -1/3}, and sum_j (u.v_j)^2 = 1, so exactly one eigenvector is +-u."""
    from rvc.core import E
    w, x, y, z = q
    u = np.array([x, y, z, -w], dtype=object)

    def hook(K, lam, V):
        n = 4
        for i in range(n):
            for j in range(n):
                c.lemma(f'K3=(4uu^T-I)/3[{i},{j}]', eq(K[i, j] * 3, 4 * u[i] * u[j] - (1 if i == j else 0)))
        cs = [dot(u, V[:, j]) for j in range(n)]
        c.lemma('sum_j (u.v_j)^2 = 1', eq(sum(cj * cj for cj in cs), 1))
        for j in range(n):
            v = V[:, j]
            c.lemma(f'lambda[{j}]=(4c^2-1)/3', eq(3 * lam[j], 4 * cs[j] * cs[j] - 1))
            for i in range(n):
                c.lemma(f'c(u-cv)=0[{j},{i}]', eq(cs[j] * (u[i] - cs[j] * v[i]), 0))
            c.lemma(f'c^2 in {{0,1}}[{j}]', Or(eq(cs[j], 0), eq(cs[j] * cs[j], 1)))
            c.lemma(f'lambda in {{1,-1/3}}[{j}]', Or(eq(lam[j], 1), eq(3 * lam[j], -1)))
            c.lemma(f'v=cu when c!=0 [{j}]', Or(eq(cs[j], 0), And(*[eq(v[i], cs[j] * u[i]) for i in range(n)])))
    E.hooks['eig'] = [hook]


@contract('C02', 'itzhack', variants=[dict(version=3), dict(version=2)], optional=True, thorough_only=True, feas_timeout_ms=1500, budget_s=3000,
          max_paths=200, cas=False, no_crosscheck=True, functions=['orientation.itzhack'])
def c_itzhack(c):
    """Bar-Itzhack versions 3 and 2 (eigenvector of K3): for every rotation, including half-turns and the identity"""
    from rvc.core import E
    q = c.unit_quat('q')
    R = mat_of_quat(q)
    if c.symbolic:
        _itzhack_lemmas(c, q)
    try:
        qq = c.ahrs.common.orientation.itzhack(R, version=c.p['version'])
    finally:
        if c.symbolic:
            E.hooks.pop('eig', None)
    qq = np.asarray(qq)
    _post(c, qq, R)
