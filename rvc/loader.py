"""rvc.loader -- import the real /repo/ahrs source with the load-time instrumentation R1..R6.

The files are re-read from disk on every run; nothing is cached (no .pyc is written).
"""
import ast, sys, os, importlib.abc, importlib.machinery, importlib.util
import numpy as _np
import z3
from .core import E, Term, BoolT, EngineUnsupported
from . import npx

sys.dont_write_bytecode = True
REPO = os.environ.get('RVC_REPO', '/repo')

REWRITE_COUNTS = {}


class Tx(ast.NodeTransformer):
    def __init__(self, path):
        self.path = path
        self.counts = dict(R1=0, R2=0, R4=0, R6=0)

    def _lab(self, node, names):
        calls = []
        for n in names:
            self.counts['R6'] += 1
            calls.append(ast.Expr(ast.Call(ast.Name('vf_label_', ast.Load()),
                                           [ast.Name(n, ast.Load()), ast.Constant(n), ast.Constant(node.lineno)], [])))
        return [node] + calls

    def visit_Assign(self, node):
        self.generic_visit(node)
        names = []
        for t in node.targets:
            if isinstance(t, ast.Name):
                names.append(t.id)
            elif isinstance(t, ast.Tuple):
                names += [e.id for e in t.elts if isinstance(e, ast.Name)]
        return self._lab(node, names) if names else node

    def visit_AugAssign(self, node):
        self.generic_visit(node)
        return self._lab(node, [node.target.id]) if isinstance(node.target, ast.Name) else node

    def visit_Call(self, node):
        self.generic_visit(node)
        if isinstance(node.func, ast.Name) and node.func.id == 'isinstance':
            node.func = ast.Name('vf_isinstance_', ast.Load())
            self.counts['R1'] += 1
        return node

    def visit_Name(self, node):
        if node.id == 'float' and isinstance(node.ctx, ast.Load):
            self.counts['R2'] += 1
            return ast.copy_location(ast.Call(ast.Name('vf_float_', ast.Load()), [], []), node)
        return node

    def visit_While(self, node):
        self.generic_visit(node)
        self.counts['R4'] += 1
        site = f"{os.path.basename(self.path)}:{node.lineno}"
        head = ast.Expr(ast.Call(ast.Name('vf_loop_', ast.Load()), [ast.Constant(site)], []))
        node.body = [head] + node.body
        return node

    # annotations are dropped (they may mention `float`)
    def visit_FunctionDef(self, node):
        node.returns = None
        for a in node.args.args + node.args.kwonlyargs + node.args.posonlyargs:
            a.annotation = None
        if node.args.vararg:
            node.args.vararg.annotation = None
        if node.args.kwarg:
            node.args.kwarg.annotation = None
        self.generic_visit(node)
        return node

    def visit_AnnAssign(self, node):
        self.generic_visit(node)
        if node.value is None:
            return None
        new = ast.Assign([node.target], node.value)
        return ast.copy_location(new, node)


class LoopBound(BaseException):
    pass


def vf_loop(site):
    if not E.symbolic:
        return
    lc = E.labels.setdefault(('loop', site), [None, 0])
    lc[1] += 1
    bound = getattr(E, 'loop_bounds', {}).get(site, getattr(E, 'default_loop_bound', 40))
    if lc[1] > bound:
        raise EngineUnsupported(f"while loop at {site} exceeded {bound} iterations on a symbolic path")


LABELS_ON = [False]
LABELS = {}


def vf_label(val, name, line):
    if not E.symbolic or not LABELS_ON[0]:
        return

    def reg(t, nm):
        if isinstance(t, Term) and not z3.is_const(t.z) and not z3.is_rational_value(t.z):
            LABELS.setdefault(t.z.get_id(), (t.z, nm))
    if isinstance(val, Term):
        reg(val, f"{name}@{line}")
    elif isinstance(val, _np.ndarray) and val.dtype == object:
        for idx, e in _np.ndenumerate(val):
            reg(e, f"{name}@{line}{list(idx)}")


class Loader(importlib.machinery.SourceFileLoader):
    def source_to_code(self, data, path, *, _optimize=-1):
        tree = ast.parse(data, path)
        tx = Tx(path)
        tree = tx.visit(tree)
        ast.fix_missing_locations(tree)
        REWRITE_COUNTS[os.path.relpath(path, REPO)] = tx.counts
        return compile(tree, path, 'exec', dont_inherit=True, optimize=_optimize)

    def get_code(self, fullname):
        # never read or write a cached .pyc
        path = self.get_filename(fullname)
        return self.source_to_code(self.get_data(path), path)

    def _cache_bytecode(self, *a, **k):
        pass

    def set_data(self, *a, **k):
        pass

    def exec_module(self, module):
        d = module.__dict__
        d['vf_isinstance_'] = npx.vf_isinstance
        d['vf_label_'] = vf_label
        d['vf_float_'] = npx.vf_float_sel
        d['vf_loop_'] = vf_loop
        super().exec_module(module)
        if 'np' in d and d['np'] is _np:
            d['np'] = npx.np_proxy


class Finder(importlib.abc.MetaPathFinder):
    def __init__(self, root):
        self.root = root

    def find_spec(self, fullname, path, target=None):
        if fullname != 'ahrs' and not fullname.startswith('ahrs.'):
            return None
        rel = fullname.split('.')
        base = os.path.join(self.root, *rel)
        if os.path.isdir(base):
            fn = os.path.join(base, '__init__.py')
            return importlib.util.spec_from_file_location(fullname, fn, loader=Loader(fullname, fn),
                                                          submodule_search_locations=[base])
        fn = base + '.py'
        if os.path.exists(fn):
            return importlib.util.spec_from_file_location(fullname, fn, loader=Loader(fullname, fn))
        return None


_installed = [False]


def install(root=None):
    if _installed[0]:
        return
    sys.meta_path.insert(0, Finder(root or REPO))
    _installed[0] = True


def load_ahrs(root=None):
    install(root)
    import ahrs
    return ahrs
