"""rvc.driver -- `./check <ID> [--tier quick|thorough]`, `./check replay <file>`, `./check lock <ID>`."""
import sys, os, json, time, importlib, subprocess, tempfile, random, math, multiprocessing as mp, traceback

HERE = os.path.dirname(os.path.dirname(os.path.abspath(__file__)))
sys.path.insert(0, HERE)
sys.dont_write_bytecode = True
REPO = os.environ.get('RVC_REPO', '/repo')
PYREAL = '/venv/bin/python' if os.path.exists('/venv/bin/python') else sys.executable
LOCK = os.path.join(HERE, 'obligations.lock.json')

TRUSTED = [
    "A-REAL: machine arithmetic treated as exact real arithmetic (no rounding, overflow, NaN)",
    "A-NP: NumPy's object-dtype and float-dtype algorithms compute the same mathematical function (guarded by the CPython cross-check on every path)",
    "A-VER: numpy 2.4.6 (engine, python3-vt) and numpy 2.5.3 (runtime, /venv) agree on the pass-through functions",
    "load-time rewrites R1-R6 of rvc/loader.py (isinstance, float, np proxy, while-loop counter, labels; annotations dropped)",
    "the NumPy model rvc/npx.py (sqrt, division, norm, det, inv, clip, sign, isclose, ...) and the trig abstraction rvc/trig.py (axioms listed per run)",
    "z3 5.1.0 (cvc5 1.0.3 as fallback), CPython 3.11",
]


def load_lock():
    try:
        return json.load(open(LOCK))
    except FileNotFoundError:
        return {}


def concrete_batch(jobs, timeout=600):
    """run concrete jobs under the real interpreter against the untouched package"""
    if not jobs:
        return []
    with tempfile.NamedTemporaryFile('w', suffix='.json', delete=False) as f:
        json.dump(dict(jobs=jobs), f)
        fn = f.name
    env = dict(os.environ, RVC_MODE='concrete', RVC_REPO=REPO, PYTHONDONTWRITEBYTECODE='1')
    env.pop('PYTHONPATH', None)
    try:
        p = subprocess.run([PYREAL, os.path.join(HERE, 'rvc', 'replay_main.py'), fn], capture_output=True, text=True,
                           timeout=timeout, env=env, cwd=HERE)
        if p.returncode != 0:
            raise RuntimeError(f"concrete runner failed: {p.stderr[-2000:]}")
        return json.loads(p.stdout)['results']
    finally:
        os.unlink(fn)


def _worker(args):
    uid, tier = args
    os.environ['RVC_MODE'] = 'symbolic'
    from rvc import api
    from rvc.sym import run_unit
    unit = api.find_unit(uid)
    try:
        return run_unit(unit, tier)
    except BaseException as ex:
        return dict(uid=uid, prop=unit.prop, name=unit.name, status='engine-error', obligations={}, paths=0,
                    notes=[f"{type(ex).__name__}: {ex}", traceback.format_exc()[-1500:]], axioms=[], effects=[],
                    samples=[], covers=[], solver_s=0.0, explore_s=0.0, wall_s=0.0)


def failing(cres, oname, kind):
    """does the concrete result show the violation the obligation is about?"""
    if cres['outcome'].startswith('raises'):
        return True
    if cres['outcome'] != 'ok':
        return False
    if kind in ('safety', 'exc'):
        return bool(cres['failed'])
    return oname in cres['failed'] or (oname.split('[')[0] in [f.split('[')[0] for f in cres['failed']])


def sample_inputs(names, rng, scale=1.0):
    out = {}
    for n in names:
        if n.startswith('th_'):
            out[n] = rng.uniform(-math.pi, math.pi)
        else:
            r = rng.random()
            if r < 0.15:
                out[n] = float(rng.choice([0.0, 1.0, -1.0, 0.5, -0.5]))
            else:
                out[n] = rng.gauss(0, 1) * scale
    return out


def check_property(prop, tier='quick', seed=0, write_lock=False, only=None):
    t0 = time.time()
    os.environ['RVC_MODE'] = 'symbolic'
    from rvc import api, loader, findings
    mod = importlib.import_module(f"contracts.{prop.lower()}")
    units = api.REGISTRY.get(prop, [])
    if only:
        units = [u for u in units if only in u.name]
    if not units:
        print(f"no contracts registered for {prop}")
        return 3
    sym_units = [u for u in units if not u.opts.get('concrete_points')]
    conc_units = [u for u in units if u.opts.get('concrete_points')]
    if tier == 'quick':
        sym_units = [u for u in sym_units if not u.opts.get('thorough_only')]
    loader.load_ahrs()          # import once before forking
    nproc = min(int(os.environ.get('RVC_PROCS', '16')), max(1, len(sym_units)))
    order = sorted(sym_units, key=lambda u: -u.opts.get('cost', 1))
    if nproc > 1:
        with mp.get_context('fork').Pool(nproc, maxtasksperchild=1) as pool:
            results = pool.map(_worker, [(u.uid, tier) for u in order], chunksize=1)
    else:
        results = [_worker((u.uid, tier)) for u in order]
    by_uid = {r['uid']: r for r in results}
    if os.environ.get('RVC_TRACE'):
        print(f'[driver] units done at {time.time()-t0:.1f}s', file=sys.stderr)
    lock = load_lock()
    locked = set(lock.get(prop, []))
    violations = []      # (obligation, replay path, found_input)
    engine_fail = []
    obligations = 0; discharged = 0
    not_covered = []; bounded = []; per_unit = []; samples = []; axioms = set(); effects = []
    disch_by = {}
    solver_s = 0.0
    rng = random.Random(seed)
    os.makedirs(os.path.join(HERE, 'replays', prop), exist_ok=True)
    new_lock = []
    fragile_list = []

    # ---- cross-check of cover models on the real interpreter
    xjobs = []
    for u in sym_units:
        r = by_uid[u.uid]
        for cv in r.get('covers', []):
            if cv.get('inputs') is not None and not u.opts.get('no_crosscheck'):
                xjobs.append((u, r, cv))
    xres = concrete_batch([dict(uid=u.uid, inputs=cv['inputs']) for (u, r, cv) in xjobs]) if xjobs else []
    xchecked = 0; xmismatch = []
    for (u, r, cv), c in zip(xjobs, xres):
        if c['outcome'] in ('outside-precondition', 'skip') or c['pre']:
            continue        # algebraic model values rounded to floats left the precondition
        xchecked += 1
        so = cv.get('outcome')
        if so == 'ok' and c['outcome'] == 'ok':
            for k, sv in (cv.get('observed') or {}).items():
                cvv = c['observed'].get(k)
                if sv is None or cvv is None or len(sv) != len(cvv):
                    xmismatch.append(f"{u.uid} path {cv['taken']} observed {k}: shape/availability differs")
                    continue
                for a, b in zip(sv, cvv):
                    if not (abs(a - b) <= 1e-6 * (1 + abs(a)) or (math.isnan(b))):
                        xmismatch.append(f"{u.uid} path {cv['taken']} observed {k}: symbolic {a} vs CPython {b}")
                        break
        elif so == 'ok' and c['outcome'].startswith('raises'):
            xmismatch.append(f"{u.uid} path {cv['taken']}: symbolic ok, CPython {c['outcome']} ({c.get('exception')})")
        elif so != 'ok' and c['outcome'] == 'ok':
            # real code finished where the symbolic path raised: tolerance-edge effects are possible; record
            xmismatch.append(f"{u.uid} path {cv['taken']}: symbolic raised {so}, CPython ok")

    if os.environ.get('RVC_TRACE'):
        print(f'[driver] cross-check done at {time.time()-t0:.1f}s', file=sys.stderr)
    # ---- obligations
    for u in sym_units:
        r = by_uid[u.uid]
        solver_s += r.get('solver_s', 0.0)
        axioms |= set(r.get('axioms', []))
        for e in r.get('effects', []):
            if e not in effects:
                effects.append(e)
        is_bounded = bool(u.opts.get('bounded'))
        urec = dict(unit=u.uid, functions=u.opts.get('functions', []), paths=r['paths'], status=r['status'],
                    obligations=0, discharged=0, discharged_by={}, solver_s=round(r.get('solver_s', 0.0), 2),
                    explore_s=round(r.get('explore_s', 0.0), 2), notes=r.get('notes', [])[:6])
        if r['status'] in ('unsupported', 'engine-error', 'vacuous'):
            if u.opts.get('optional') and not any(o.startswith(u.uid + '::') for o in locked):
                not_covered.append(dict(obligation=u.uid, note=f"unit out of reach: {r['status']}: {str(r['notes'][:1])[:200]}"))
            else:
                engine_fail.append(f"{u.uid}: {r['status']}: {r['notes'][:2]}")
        for oname, o in r['obligations'].items():
            oid = f"{u.uid}::{oname}"
            full = o['instances'] > 0 and o['proved'] == o['instances']
            if o['kind'] == 'engine':
                engine_fail.append(oid)
                continue
            if is_bounded:
                bounded.append(dict(obligation=oid, instances=o['instances'], proved=o['proved'], bound=u.opts.get('bounded')))
                if o['refuted'] == 0 and full:
                    continue
            if full:
                if not is_bounded:
                    obligations += 1; discharged += 1
                    urec['obligations'] += 1; urec['discharged'] += 1
                    for b, n in o['by'].items():
                        urec['discharged_by'][b] = urec['discharged_by'].get(b, 0) + n
                        disch_by[b] = disch_by.get(b, 0) + n
                    # lock only what is robustly discharged: not the `no-exception` of a spurious path, and not an
                    # obligation whose slowest instance needed more than 40 % of the per-query budget
                    tmo = u.opts.get('timeout_ms', 60000 if tier == 'quick' else 300000) / 1000.0
                    fragile = o.get('max_secs', 0.0) > 0.4 * tmo
                    if oname != 'no-exception' and not fragile:
                        new_lock.append(oid)
                    elif fragile:
                        fragile_list.append(oid)
                continue
            # --- not fully proved
            confirmed = None
            if o['refuted'] and o['witness'] and o['witness'].get('inputs') is not None:
                errs = 'raise' if o['kind'] == 'safety' else 'ignore'
                c = concrete_batch([dict(uid=u.uid, inputs=o['witness']['inputs'], errstate=errs)])[0]
                if failing(c, oname, o['kind']):
                    confirmed = (o['witness']['inputs'], c, 'solver counter-model')
            if confirmed is None and (oid in locked or o['refuted']):
                # numeric falsification inside the precondition, around the witness and at random
                names = list(r.get('input_names') or [])
                names = [n for n in names if n != '__pi__']
                jobs = []
                base = o['witness']['inputs'] if (o['witness'] and o['witness'].get('inputs')) else None
                nsamp = 200 if tier == 'quick' else 2000
                for k in range(nsamp):
                    if base is not None and k % 2 == 0:
                        inp = {n: base.get(n, 0.0) + rng.gauss(0, 1) * 10 ** rng.uniform(-9, -1) for n in names}
                    else:
                        inp = sample_inputs(names, rng)
                    jobs.append(dict(uid=u.uid, inputs=inp, errstate='raise' if o['kind'] == 'safety' else 'ignore'))
                for job, c in zip(jobs, concrete_batch(jobs) if names else []):
                    if c['pre'] or c['outcome'] in ('outside-precondition', 'skip'):
                        continue
                    if failing(c, oname, o['kind']):
                        confirmed = (job['inputs'], c, 'numeric falsification')
                        break
            if confirmed is not None:
                inp, c, how = confirmed
                path = os.path.join(HERE, 'replays', prop, _safe(oid) + '.json')
                json.dump(dict(property=prop, obligation=oid, unit=u.uid, inputs=inp, how=how, solver=o['witness'],
                               observed=c, replay_cmd=f"./check replay replays/{prop}/{_safe(oid)}.json"), open(path, 'w'), indent=1)
                violations.append((oid, path, True))
            elif oid in locked and oname != 'no-exception':
                path = os.path.join(HERE, 'replays', prop, _safe(oid) + '.json')
                json.dump(dict(property=prop, obligation=oid, unit=u.uid, inputs=None, how='obligation no longer discharged',
                               solver=dict(refuted=o['refuted'], undecided=o['undecided'], instances=o['instances'],
                                           witness=o['witness'], detail=o['detail'][:5])), open(path, 'w'), indent=1)
                violations.append((oid, path, False))
            else:
                not_covered.append(dict(obligation=oid, refuted=o['refuted'], undecided=o['undecided'],
                                        instances=o['instances'], note='not in the lock file: not claimed',
                                        witness=(o['witness'] or {}).get('inputs')))
                if not is_bounded:
                    pass
        per_unit.append(urec)
        for s in r.get('samples', [])[:1]:
            if len(samples) < 4:
                samples.append(s)

    # locked obligations that did not show up at all
    seen = set(new_lock) | set(fragile_list) | {v[0] for v in violations} | {n['obligation'] for n in not_covered}
    if not only:
        for oid in sorted(locked):
            if oid.endswith('::no-exception'):
                continue      # emitted only on paths that raise: absent when no such path is explored
            if oid not in seen:
                unit_uid = oid.split('::')[0]
                if unit_uid in by_uid or tier == 'thorough' or not any(u.uid == unit_uid for u in units):
                    engine_fail.append(f"locked obligation missing from this run: {oid}")

    # ---- concrete canonical points (never counted as proved)
    conc_report = []
    for u in conc_units:
        pts = u.opts['concrete_points']
        cres = concrete_batch([dict(uid=u.uid, inputs=p) for p in pts])
        bad = 0
        for p, c in zip(pts, cres):
            if c['outcome'] != 'ok' or c['failed']:
                kf = u.opts.get('known_finding')
                if kf and findings.is_open(kf):
                    continue
                bad += 1
                oid = f"{u.uid}::concrete-point"
                path = os.path.join(HERE, 'replays', prop, _safe(oid) + '.json')
                json.dump(dict(property=prop, obligation=oid, unit=u.uid, inputs=p, how='canonical point', observed=c),
                          open(path, 'w'), indent=1)
                violations.append((oid, path, True))
                break
        conc_report.append(dict(unit=u.uid, points=len(pts), failed=bad,
                                label=('bounded: ' + str(u.opts['bounded'])) if u.opts.get('bounded') else 'concrete'))

    if os.environ.get('RVC_TRACE'):
        print(f'[driver] obligations done at {time.time()-t0:.1f}s', file=sys.stderr)
    # ---- known findings
    kf_lines = []
    for f in findings.for_property(prop):
        try:
            c = concrete_batch([dict(uid=f['unit'], inputs=f['witness'],
                                     errstate='raise' if f.get('errstate') == 'raise' else 'ignore')])[0]
        except Exception as ex:
            engine_fail.append(f"known finding {f['id']}: replay failed: {ex}")
            continue
        if c['outcome'].startswith('raises') or c['failed']:
            kf_lines.append(f"KNOWN-FINDING: property={prop} {f['id']}: {f['what']}")
        else:
            print(f"note: known finding {f['id']} no longer reproduces on its witness")

    wall = time.time() - t0
    ev = dict(property_id=prop, tier=tier, seed=seed, level='proof', wall_s=round(wall, 2), violations=len(violations),
              coverage=dict(
                  obligations=obligations, discharged=discharged,
                  checker_cmd=f"./check {prop} --tier {tier}",
                  trusted_base=TRUSTED,
                  functions_under_contract=sorted({f for u in units for f in u.opts.get('functions', [])}),
                  units=per_unit, discharged_by=disch_by, solver_s=round(solver_s, 2),
                  samples=samples or [dict(note='no non-trivial sample recorded')],
                  axioms_used=sorted(axioms), effects=effects,
                  crosscheck=dict(models_run_on_cpython=xchecked, mismatches=xmismatch[:20]),
                  bounded=bounded[:200], concrete_points=conc_report, not_covered=not_covered[:200],
                  not_covered_clauses=getattr(mod, 'NOT_COVERED', []),
                  exclusions=getattr(mod, 'EXCLUSIONS', []),
                  known_findings=[l for l in kf_lines],
                  rewrites=loader.REWRITE_COUNTS if False else None,
                  fragile_not_locked=fragile_list[:100],
                  engine_failures=engine_fail),
              assumptions=TRUSTED + [f"axiom {a}" for a in sorted(axioms)] + list(getattr(mod, 'ASSUMPTIONS', [])))
    os.makedirs(os.path.join(HERE, 'evidence'), exist_ok=True)
    if not only:
        json.dump(ev, open(os.path.join(HERE, 'evidence', f"{prop}.json"), 'w'), indent=1)

    for l in kf_lines:
        print(l)
    print(f"{prop}: {discharged}/{obligations} obligations discharged over {len(sym_units)} units "
          f"({sum(r['paths'] for r in results)} paths), by {disch_by}, solver {solver_s:.1f}s, wall {wall:.1f}s; "
          f"cross-check {xchecked} models, {len(xmismatch)} mismatches; not claimed: {len(not_covered)}; bounded: {len(bounded)}")
    for m in xmismatch[:10]:
        print("  cross-check mismatch:", m)
    if write_lock:
        if only:
            ran = {u.uid for u in units}
            keep = [o for o in lock.get(prop, []) if o.split('::')[0] not in ran]
            lock[prop] = sorted(set(keep) | set(new_lock))
        else:
            lock[prop] = sorted(set(new_lock))
        json.dump(lock, open(LOCK, 'w'), indent=0, sort_keys=True)
        print(f"lock file updated: {len(new_lock)} obligations for {prop}")
    if violations:
        for oid, path, found in violations:
            rel = os.path.relpath(path, HERE)
            print(f"VIOLATION property={prop} replay={rel}" + ("" if found else " no-failing-input-found"))
        return 1
    if engine_fail or xmismatch:
        for e in engine_fail[:20]:
            print("ENGINE:", e)
        return 3
    if obligations == 0:
        print("ENGINE: zero obligations")
        return 3
    return 0


def _safe(s):
    return ''.join(ch if ch.isalnum() or ch in '-_.' else '_' for ch in s)[:150]


def replay(path):
    d = json.load(open(path))
    if d.get('inputs') is None:
        print(f"obligation {d['obligation']} is no longer discharged; no failing input was found. Solver output:")
        print(json.dumps(d.get('solver'), indent=1)[:3000])
        return 1
    c = concrete_batch([dict(uid=d['unit'], inputs=d['inputs'],
                             errstate='raise' if '::safe:' in d['obligation'] else 'ignore')])[0]
    print(json.dumps(c, indent=1)[:4000])
    bad = c['outcome'].startswith('raises') or bool(c['failed'])
    print("REPRODUCED" if bad else "NOT REPRODUCED")
    return 1 if bad else 0


def main(argv):
    if not argv:
        print(__doc__); return 2
    if argv[0] == 'replay':
        return replay(argv[1])
    tier = os.environ.get('VERIF_TIER', 'quick')
    seed = int(os.environ.get('VERIF_SEED', '0'))
    write_lock = False; only = None
    args = list(argv)
    if args[0] == 'lock':
        write_lock = True; args = args[1:]
    prop = args[0]
    i = 1
    while i < len(args):
        if args[i] == '--tier':
            tier = args[i + 1]; i += 2
        elif args[i] == '--only':
            only = args[i + 1]; i += 2
        else:
            i += 1
    return check_property(prop, tier, seed, write_lock, only)


if __name__ == '__main__':
    sys.exit(main(sys.argv[1:]))
