"""rvc.conc -- concrete-mode implementation of the contract API (no z3; runs under /venv/bin/python
against the untouched `import ahrs`).  Used for replay and for the CPython cross-check."""
import math
import numpy as np

__all__ = ['eq', 'ne', 'lt', 'le', 'gt', 'ge', 'And', 'Or', 'Not', 'Implies', 'SYMBOLIC', 'absv', 'sqrtv',
           'dot', 'mat_of_quat', 'qmul', 'qconj', 'PI_', 'Skip']

SYMBOLIC = False
PI_ = math.pi
TOL = [1e-6]


class Skip(BaseException):
    pass


class OutsidePrecondition(Exception):
    pass


def _f(x):
    return float(x)


def _close(a, b):
    a, b = _f(a), _f(b)
    if math.isnan(a) or math.isnan(b) or math.isinf(a) or math.isinf(b):
        return False
    return abs(a - b) <= TOL[0] * (1.0 + abs(b))


def eq(a, b): return _close(a, b)
def ne(a, b): return _f(a) != _f(b)
def lt(a, b): return _f(a) < _f(b) + TOL[0] * (1.0 + abs(_f(b)))
def le(a, b): return _f(a) <= _f(b) + TOL[0] * (1.0 + abs(_f(b)))
def gt(a, b): return _f(a) > _f(b) - TOL[0] * (1.0 + abs(_f(b)))
def ge(a, b): return _f(a) >= _f(b) - TOL[0] * (1.0 + abs(_f(b)))
def And(*a): return all(bool(x) for x in a)
def Or(*a): return any(bool(x) for x in a)
def Not(a): return not bool(a)
def Implies(a, b): return (not bool(a)) or bool(b)
def absv(x): return abs(_f(x))
def sqrtv(x): return math.sqrt(max(_f(x), 0.0))


def dot(a, b):
    return float(sum(_f(x) * _f(y) for x, y in zip(list(a), list(b))))


def mat_of_quat(q):
    w, x, y, z = [float(v) for v in q]
    return np.array([
        [1 - 2 * (y * y + z * z), 2 * (x * y - w * z), 2 * (x * z + w * y)],
        [2 * (x * y + w * z), 1 - 2 * (x * x + z * z), 2 * (y * z - w * x)],
        [2 * (x * z - w * y), 2 * (w * x + y * z), 1 - 2 * (x * x + y * y)]])


def qmul(p, q):
    return np.array([
        p[0] * q[0] - p[1] * q[1] - p[2] * q[2] - p[3] * q[3],
        p[0] * q[1] + p[1] * q[0] + p[2] * q[3] - p[3] * q[2],
        p[0] * q[2] - p[1] * q[3] + p[2] * q[0] + p[3] * q[1],
        p[0] * q[3] + p[1] * q[2] - p[2] * q[1] + p[3] * q[0]], dtype=float)


def qconj(q):
    return np.array([q[0], -q[1], -q[2], -q[3]], dtype=float)


class Ctx:
    symbolic = False

    def __init__(self, unit, inputs, strict_pre=True):
        self.unit = unit
        self.p = dict(unit.params)
        self.np = np
        self.values = dict(inputs)
        self.goals = []
        self.observed = {}
        self.tracked = []
        self.notes = []
        self.pre_violations = []
        self.strict_pre = strict_pre
        TOL[0] = unit.opts.get('tol', 1e-6)
        self.used = {}
        self.angles = {}

    @property
    def ahrs(self):
        import ahrs
        return ahrs

    def real(self, name):
        v = float(self.values.get(name, 0.0))
        self.used[name] = v
        return v

    def reals(self, name, shape):
        shape = (shape,) if isinstance(shape, int) else tuple(shape)
        a = np.empty(shape, dtype=float)
        for idx in np.ndindex(*shape):
            a[idx] = self.real(name + ''.join(f"_{i}" for i in idx))
        return a

    def unit_quat(self, name):
        q = self.reals(name, 4)
        n = np.linalg.norm(q)
        if n == 0:
            raise OutsidePrecondition(f"{name} is zero")
        return q / n

    def unit_vec(self, name, n=3):
        v = self.reals(name, n)
        nn = np.linalg.norm(v)
        if nn == 0:
            raise OutsidePrecondition(f"{name} is zero")
        return v / nn

    def angle(self, name, lo=None, hi=None, lo_strict=True, hi_strict=True):
        v = self.real('th_' + name)
        # the model's pi is an interval approximation; rescale so range facts survive
        mp = self.values.get('__pi__')
        if mp and not self.values.get('__exact_angles__'):
            v = v * math.pi / mp
        if lo is not None and not (v > lo if lo_strict else v >= lo):
            self.pre_violations.append(f"angle {name}={v} below {lo}")
        if hi is not None and not (v < hi if hi_strict else v <= hi):
            self.pre_violations.append(f"angle {name}={v} above {hi}")
        self.angles[name] = v
        return v

    def angle_deg(self, name, lo=None, hi=None, lo_strict=True, hi_strict=True):
        return math.degrees(self.angle(name, lo, hi, lo_strict, hi_strict))

    def const(self, v):
        return v

    def arr(self, data):
        return np.array(data, dtype=float)

    def assume(self, cond):
        if not bool(cond):
            self.pre_violations.append("assumption false on these inputs")
            if self.strict_pre:
                raise OutsidePrecondition("assumption false on these inputs")

    def goal(self, name, cond, kind='post'):
        self.goals.append((name, bool(cond), kind))

    def summarize(self, name, arr, fact):
        self.goals.append((f"lemma:{name}.summary", bool(fact(arr)), 'lemma'))
        return arr

    def lemma(self, name, cond):
        self.goals.append((f"lemma:{name}", bool(cond), 'lemma'))

    def goal_eq(self, name, A, B, kind='post'):
        A = np.asarray(A); B = np.asarray(B)
        if A.shape != B.shape:
            self.goals.append((f"{name}.shape", False, kind))
            self.notes.append(f"{name}: shapes {A.shape} vs {B.shape}")
            return
        if A.ndim == 0:
            self.goals.append((name, eq(A[()], B[()]), kind))
            return
        for idx in np.ndindex(*A.shape):
            self.goals.append((f"{name}[{','.join(map(str, idx))}]", eq(A[idx], B[idx]), kind))

    def goal_eq_pm(self, name, A, B, kind='post'):
        A = np.asarray(A, dtype=float); B = np.asarray(B, dtype=float)
        if A.shape != B.shape:
            self.goals.append((f"{name}.shape", False, kind))
            return
        plus = all(eq(A[i], B[i]) for i in np.ndindex(*A.shape))
        minus = all(eq(A[i], -B[i]) for i in np.ndindex(*A.shape))
        self.goals.append((name, plus or minus, kind))

    def goal_shape(self, name, A, shape):
        self.goals.append((name, isinstance(A, np.ndarray) and tuple(A.shape) == tuple(shape), 'post'))

    def goal_angle_eq(self, name, a, b):
        self.goals.append((f"{name}.cos", eq(math.cos(a), math.cos(b)), 'post'))
        self.goals.append((f"{name}.sin", eq(math.sin(a), math.sin(b)), 'post'))
        self.goals.append((f"{name}.range", -math.pi - 1e-9 < a <= math.pi + 1e-9 and -math.pi - 1e-9 < b <= math.pi + 1e-9, 'post'))

    def cos(self, a):
        return np.cos(a)

    def sin(self, a):
        return np.sin(a)

    def observe(self, name, value):
        self.observed[name] = np.asarray(value, dtype=float).ravel().tolist()

    def track(self, name, arr):
        self.tracked.append((name, arr, np.array(arr, copy=True)))
        return arr

    def note(self, s):
        self.notes.append(s)

    def finish(self):
        for name, arr, orig in self.tracked:
            same = arr.shape == orig.shape and bool(np.all((arr == orig) | (np.isnan(arr) & np.isnan(orig))))
            self.goals.append((f"frame:{name}", same, 'frame'))

    def known_region(self, kf_id, cond):
        # replay runs see the whole domain; the region is only reported
        if bool(cond):
            self.notes.append(f"inside known-finding region {kf_id}")
        return False


def run_concrete(unit, inputs, strict_pre=False, errstate='ignore'):
    """execute the contract on floats against the real package; returns a JSON-able dict"""
    import traceback
    ctx = Ctx(unit, inputs, strict_pre=strict_pre)
    out = dict(uid=unit.uid, inputs=dict(inputs), outcome='ok', failed=[], goals=0, notes=[], observed={}, pre=[])
    old = np.seterr(all='ignore')
    if errstate == 'raise':
        np.seterr(divide='raise', invalid='raise')
    try:
        try:
            unit.fn(ctx)
            ctx.finish()
        except Skip:
            out['outcome'] = 'skip'
        except OutsidePrecondition as ex:
            out['outcome'] = 'outside-precondition'
            out['notes'].append(str(ex))
        except Exception as ex:
            tb = traceback.extract_tb(ex.__traceback__)
            where = [f for f in tb if '/ahrs/' in f.filename]
            out['outcome'] = 'raises:' + type(ex).__name__
            out['exception'] = f"{type(ex).__name__}: {str(ex)[:200]}"
            out['where'] = f"{where[-1].filename.split('/ahrs/')[-1]}:{where[-1].lineno}" if where else \
                f"{tb[-1].filename}:{tb[-1].lineno}"
            out['in_repo'] = bool(where)
    finally:
        np.seterr(**old)
    out['goals'] = len(ctx.goals)
    out['failed'] = [n for (n, ok, k) in ctx.goals if not ok]
    out['observed'] = ctx.observed
    out['notes'] += ctx.notes
    out['pre'] = ctx.pre_violations
    out['used'] = ctx.used
    return out
