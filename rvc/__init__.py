"""rvc -- real-arithmetic verification conditions for the real ahrs code (see /verif/DESIGN.md)"""
