"""known_findings.json access (read-only; never written at run time)"""
import json, os
_PATH = os.path.join(os.path.dirname(os.path.dirname(os.path.abspath(__file__))), 'known_findings.json')
_cache = [None]


def load():
    if _cache[0] is None:
        try:
            _cache[0] = json.load(open(_PATH))
        except FileNotFoundError:
            _cache[0] = dict(findings=[], fixed=[])
    return _cache[0]


def is_open(kf_id):
    return any(f['id'] == kf_id for f in load().get('findings', []))


def get(kf_id):
    for f in load().get('findings', []):
        if f['id'] == kf_id:
            return f
    return None


def for_property(prop):
    return [f for f in load().get('findings', []) if f['property'] == prop]
