"""concrete-side runner: executes contract units on float inputs against the untouched `import ahrs`.
usage: RVC_MODE=concrete /venv/bin/python -m rvc.replay_main <jobs.json>   (prints JSON)
jobs.json: {"jobs": [{"uid": "C09/xyz", "inputs": {...}, "errstate": "ignore"|"raise"}]}
"""
import sys, os, json, importlib
os.environ['RVC_MODE'] = 'concrete'
sys.dont_write_bytecode = True
HERE = os.path.dirname(os.path.dirname(os.path.abspath(__file__)))
sys.path.insert(0, HERE)
REPO = os.environ.get('RVC_REPO', '/repo')
if REPO not in sys.path:
    sys.path.insert(0, REPO)      # the working tree, not an installed copy


def main():
    import numpy as np
    from rvc import api, conc
    data = json.load(open(sys.argv[1]))
    out = []
    for job in data['jobs']:
        prop = job['uid'].split('/')[0]
        importlib.import_module(f"contracts.{prop.lower()}")
        unit = api.find_unit(job['uid'])
        r = conc.run_concrete(unit, job['inputs'], errstate=job.get('errstate', 'ignore'))
        out.append(r)
    import ahrs
    json.dump(dict(results=out, ahrs_file=ahrs.__file__, python=sys.version.split()[0], numpy=np.__version__), sys.stdout)


if __name__ == '__main__':
    main()
