"""rvc.api -- what contract scripts are written against.

A contract is a plain Python function `def c_xxx(c): ...` that
  * declares symbolic inputs and preconditions (c.real, c.reals, c.unit_quat, c.angle, c.assume),
  * calls the REAL ahrs functions (c.ahrs is the package: instrumented in symbolic mode,
    the untouched import in concrete mode),
  * states postconditions taken from the property (c.goal, c.goal_eq, ...).
The same function runs in two modes:
  symbolic  (python3-vt, engine)   : every feasible path is explored, each goal and each
                                     safety obligation becomes a solver query for ALL inputs;
  concrete  (/venv/bin/python)     : inputs are floats from a counter-model / cover model;
                                     used for replay and for the CPython cross-check.
Predicates below work in both modes.
"""
import os

MODE = os.environ.get('RVC_MODE', 'symbolic')

if MODE == 'concrete':
    from .conc import *        # noqa
    from . import conc as _impl
else:
    from .sym import *         # noqa
    from . import sym as _impl

REGISTRY = {}      # property id -> list of Unit


class Unit:
    def __init__(self, prop, name, fn, params, opts):
        self.prop, self.name, self.fn, self.params, self.opts = prop, name, fn, params, opts

    @property
    def uid(self):
        return f"{self.prop}/{self.name}"

    def __repr__(self):
        return f"<unit {self.uid}>"


def contract(prop, name=None, variants=None, **opts):
    """register a contract function; `variants` = list of dicts -> one unit per dict (name gets a suffix)"""
    def deco(fn):
        base = name or fn.__name__
        if variants:
            for v in variants:
                tag = ','.join(f"{k}={v[k]}" for k in v)
                REGISTRY.setdefault(prop, []).append(Unit(prop, f"{base}[{tag}]", fn, dict(v), dict(opts)))
        else:
            REGISTRY.setdefault(prop, []).append(Unit(prop, base, fn, {}, dict(opts)))
        return fn
    return deco


def find_unit(uid):
    prop, name = uid.split('/', 1)
    for u in REGISTRY.get(prop, []):
        if u.name == name:
            return u
    raise KeyError(uid)
