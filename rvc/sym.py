"""rvc.sym -- symbolic-mode implementation of the contract API and the unit runner."""
import time, traceback, os, json, math, sys
TRACE = bool(os.environ.get('RVC_TRACE'))
TRACE_DIR = os.environ.get('RVC_TRACE_DIR')
from fractions import Fraction
import numpy as _np
import z3
from . import core, trig, npx, loader
from .core import E, Term, BoolT, toz, isnum, is_sym, EngineUnsupported, Infeasible, explore, PI

__all__ = ['eq', 'ne', 'lt', 'le', 'gt', 'ge', 'And', 'Or', 'Not', 'Implies', 'SYMBOLIC', 'absv', 'sqrtv',
           'dot', 'mat_of_quat', 'qmul', 'qconj', 'PI_', 'Skip']

SYMBOLIC = True
PI_ = Term(PI)


class Skip(BaseException):
    """raised by a contract to abandon the current path as outside the precondition"""


# ------------------------------------------------------------------ predicates
def _z(x):
    if isinstance(x, BoolT):
        return x.z
    if isinstance(x, z3.BoolRef):
        return x
    if isinstance(x, (bool, _np.bool_)):
        return z3.BoolVal(bool(x))
    raise TypeError(f"not a predicate: {type(x)}")


def eq(a, b): return toz(a) == toz(b)
def ne(a, b): return toz(a) != toz(b)
def lt(a, b): return toz(a) < toz(b)
def le(a, b): return toz(a) <= toz(b)
def gt(a, b): return toz(a) > toz(b)
def ge(a, b): return toz(a) >= toz(b)
def And(*a): return z3.And(*[_z(x) for x in a]) if a else z3.BoolVal(True)
def Or(*a): return z3.Or(*[_z(x) for x in a]) if a else z3.BoolVal(False)
def Not(a): return z3.Not(_z(a))
def Implies(a, b): return z3.Implies(_z(a), _z(b))


def absv(x):
    """|x| as a value (If-encoded; use only inside goals/assumptions, never in code paths)"""
    z = toz(x)
    return Term(z3.If(z >= 0, z, -z))


def sqrtv(x):
    """specification-level square root: fresh r >= 0 with r*r == x (adds the definition to the path)"""
    if isnum(x):
        return math.sqrt(x)
    return core.fresh_sqrt(x)


def dot(a, b):
    s = 0.0
    for x, y in zip(list(a), list(b)):
        s = s + x * y
    return s


def mat_of_quat(q):
    """the Euler-Rodrigues matrix M(q) of the property statements (specification, not repo code)"""
    w, x, y, z = q
    R = _np.empty((3, 3), dtype=object)
    R[0, 0] = 1 - 2 * (y * y + z * z); R[0, 1] = 2 * (x * y - w * z); R[0, 2] = 2 * (x * z + w * y)
    R[1, 0] = 2 * (x * y + w * z); R[1, 1] = 1 - 2 * (x * x + z * z); R[1, 2] = 2 * (y * z - w * x)
    R[2, 0] = 2 * (x * z - w * y); R[2, 1] = 2 * (w * x + y * z); R[2, 2] = 1 - 2 * (x * x + y * y)
    return R


def qmul(p, q):
    """Hamilton product (specification)"""
    return _np.array([
        p[0] * q[0] - p[1] * q[1] - p[2] * q[2] - p[3] * q[3],
        p[0] * q[1] + p[1] * q[0] + p[2] * q[3] - p[3] * q[2],
        p[0] * q[2] - p[1] * q[3] + p[2] * q[0] + p[3] * q[1],
        p[0] * q[3] + p[1] * q[2] - p[2] * q[1] + p[3] * q[0]], dtype=object)


def qconj(q):
    return _np.array([q[0], -q[1], -q[2], -q[3]], dtype=object)


# ------------------------------------------------------------------ context
class _Marked(str):
    """goal name that remembers how many path assumptions precede it"""
    def __new__(cls, s, n):
        o = str.__new__(cls, s)
        o.nassume = n
        return o


class Ctx:
    symbolic = True

    def __init__(self, unit):
        self.unit = unit
        self.p = dict(unit.params)
        self.np = npx.np_proxy
        self.inputs = {}         # symbol name -> z3 const (for counter-models)
        self.angles = {}         # angle input names
        self.static_assume = []  # assumptions that do not depend on the path (collected on first run)
        self._reset_path()
        self.tol = unit.opts.get('tol', 1e-6)

    def _reset_path(self):
        self.goals = []          # (name, z3 bool, kind)
        self.observed = {}
        self.tracked = []        # (name, array, original elements)
        self.notes = []
        self.expect_exc = None

    @property
    def ahrs(self):
        return loader.load_ahrs()

    # ---- inputs
    def real(self, name):
        v = z3.Real(name)
        self.inputs[name] = v
        return Term(v)

    def reals(self, name, shape):
        shape = (shape,) if isinstance(shape, int) else tuple(shape)
        a = _np.empty(shape, dtype=object)
        for idx in _np.ndindex(*shape):
            a[idx] = self.real(name + ''.join(f"_{i}" for i in idx))
        return a

    def unit_quat(self, name):
        q = self.reals(name, 4)
        self.assume(eq(dot(q, q), 1))
        return q

    def unit_vec(self, name, n=3):
        v = self.reals(name, n)
        self.assume(eq(dot(v, v), 1))
        return v

    def angle(self, name, lo=None, hi=None, lo_strict=True, hi_strict=True):
        a = trig.angle_input(name)
        self.inputs['th_' + name] = trig.A.value(name)
        self.angles[name] = a
        if lo is not None:
            self.assume((a.z > toz(lo)) if lo_strict else (a.z >= toz(lo)))
        if hi is not None:
            self.assume((a.z < toz(hi)) if hi_strict else (a.z <= toz(hi)))
        return a

    def angle_deg(self, name, lo=None, hi=None, lo_strict=True, hi_strict=True):
        """an input angle handed to the code in DEGREES: the value theta*180/pi of the radian atom `name`
        (bounds lo/hi are in radians)"""
        a = self.angle(name, lo, hi, lo_strict, hi_strict)
        return trig.Angle({name: (Fraction(180), -1)})

    def const(self, v):
        return v

    def arr(self, data):
        """concrete data as an array of the mode's kind"""
        return _np.array(data, dtype=float).astype(object)

    # ---- preconditions
    def assume(self, cond):
        E.assume_here(_z(cond) if not isinstance(cond, BoolT) else cond)

    # ---- postconditions
    def goal(self, name, cond, kind='post'):
        if isinstance(cond, BoolT):
            cond = cond.z
        self.goals.append((name, _z(cond), kind))

    def summarize(self, name, arr, fact):
        """modular cut (havoc + assume): prove `fact(arr)` as a lemma, then replace the elements of the real
        array in place by fresh symbols about which only `fact` is known.  The defining links
        fresh == old term are kept aside: they are used for cover models and to double-check refutations."""
        self.lemma(f"{name}.summary", fact(arr))
        E.path_assume.pop()                       # the lemma was about the old terms; restate on the fresh ones
        for idx in _np.ndindex(*arr.shape):
            old = arr[idx]
            if not isinstance(old, Term):
                continue
            v = z3.Real(f"{name}{''.join('_%d' % i for i in idx)}")
            E.links.append(v == old.z)
            arr[idx] = Term(v)
        E.path_assume.append(_z(fact(arr)))
        return arr

    def lemma(self, name, cond):
        """ghost lemma: an obligation like any other; once stated it is a hypothesis for the goals that
        follow it on this path (it is proved from what precedes it, never from itself)"""
        cond = _z(cond.z if isinstance(cond, BoolT) else cond)
        self.goals.append((_Marked(f"lemma:{name}", len(E.path_assume)), cond, 'lemma'))
        E.path_assume.append(cond)

    def goal_eq(self, name, A, B, kind='post'):
        """component-wise equality of two scalars/arrays (shapes must agree: that is itself a goal)"""
        A = _np.asarray(A, dtype=object) if not isinstance(A, _np.ndarray) else A
        B = _np.asarray(B, dtype=object) if not isinstance(B, _np.ndarray) else B
        if A.shape != B.shape:
            self.goals.append((f"{name}.shape", z3.BoolVal(False), kind))
            self.notes.append(f"{name}: shapes {A.shape} vs {B.shape}")
            return
        if A.ndim == 0:
            self.goals.append((name, eq(A[()], B[()]), kind))
            return
        for idx in _np.ndindex(*A.shape):
            self.goals.append((f"{name}[{','.join(map(str, idx))}]", eq(A[idx], B[idx]), kind))

    def goal_eq_pm(self, name, A, B, kind='post'):
        """A == B or A == -B (as whole vectors)"""
        A = _np.asarray(A, dtype=object); B = _np.asarray(B, dtype=object)
        if A.shape != B.shape:
            self.goals.append((f"{name}.shape", z3.BoolVal(False), kind))
            return
        plus = z3.And(*[eq(A[i], B[i]) for i in _np.ndindex(*A.shape)])
        minus = z3.And(*[eq(A[i], -B[i]) for i in _np.ndindex(*A.shape)])
        self.goals.append((name, z3.Or(plus, minus), kind))

    def goal_shape(self, name, A, shape):
        ok = isinstance(A, _np.ndarray) and tuple(A.shape) == tuple(shape)
        self.goals.append((name, z3.BoolVal(bool(ok)), 'post'))

    def goal_angle_eq(self, name, a, b):
        """two angles in (-pi, pi] are equal: equal cos and sin (axiom J1)"""
        a, b = trig.as_angle(a), trig.as_angle(b)
        ca, sa = a.cs(); cb, sb = b.cs()
        E.axioms_used.add('J1')
        self.goals.append((f"{name}.cos", ca == cb, 'post'))
        self.goals.append((f"{name}.sin", sa == sb, 'post'))
        self.goals.append((f"{name}.range", z3.And(a.z > -PI, a.z <= PI, b.z > -PI, b.z <= PI), 'post'))

    def cos(self, a):
        return self.np.cos(a)

    def sin(self, a):
        return self.np.sin(a)

    def observe(self, name, value):
        self.observed[name] = value

    def track(self, name, arr):
        """frame tracking: the caller's array `arr` must come back unchanged"""
        orig = _np.empty(arr.shape, dtype=object)
        for idx in _np.ndindex(*arr.shape):
            orig[idx] = arr[idx]
        self.tracked.append((name, arr, orig))
        return arr

    def note(self, s):
        self.notes.append(s)

    def finish(self):
        for name, arr, orig in self.tracked:
            changed = False
            for idx in _np.ndindex(*orig.shape):
                new, old = arr[idx], orig[idx]
                if new is old:
                    continue
                if isnum(new) and isnum(old) and new == old:
                    continue
                changed = True
                self.goals.append((f"frame:{name}", toz(new) == toz(old), 'frame'))
            if not changed:
                self.goals.append((f"frame:{name}", z3.BoolVal(True), 'frame'))

    def known_region(self, kf_id, cond):
        """exclude the region of a finding listed (open) in known_findings.json; a no-op otherwise"""
        from . import findings
        if findings.is_open(kf_id):
            self.assume(Not(cond))
            self.notes.append(f"known-finding region excluded: {kf_id}")
            return True
        return False


# ------------------------------------------------------------------ proving
def _vars(e, memo):
    """names of the uninterpreted constants of a z3 expression (memoised on ast id)"""
    i = e.get_id()
    if i in memo:
        return memo[i]
    out = set()
    if z3.is_const(e):
        if e.decl().kind() == z3.Z3_OP_UNINTERPRETED:
            out = {str(e)}
    else:
        for ch in e.children():
            out |= _vars(ch, memo)
    memo[i] = out
    return out


def _is_defined_var(n):
    return '!' in n or n.startswith(('c_', 's_', 'th_'))


def _stages(hyps, goal):
    """hypothesis subsets tried in order (dropping hypotheses is always sound):
    none; the definitions of the fresh variables the goal mentions (transitively); everything"""
    memo = {}
    gv = _vars(goal, memo)
    hv = [(_vars(h, memo), h) for h in hyps]
    want = {v for v in gv if _is_defined_var(v)}
    chosen = []
    changed = True
    used = set()
    while changed:
        changed = False
        for k, (vs, h) in enumerate(hv):
            if k in used:
                continue
            if vs & want:
                used.add(k); chosen.append(h); changed = True
                want |= {v for v in vs if _is_defined_var(v)}
    stages = [[]]
    if chosen and len(chosen) < len(hyps):
        stages.append(chosen)
    stages.append(list(hyps))
    return stages


def _is_sos(e):
    """syntactic sum of squares (numerals >= 0 allowed): trivially non-negative"""
    if z3.is_rational_value(e):
        return e.numerator_as_long() >= 0
    if z3.is_add(e):
        return all(_is_sos(ch) for ch in e.children())
    if z3.is_mul(e):
        ch = e.children()
        if len(ch) == 2 and ch[0].get_id() == ch[1].get_id():
            return True
        if len(ch) == 2 and z3.is_rational_value(ch[0]) and ch[0].numerator_as_long() >= 0:
            return _is_sos(ch[1])
        # x*x*y*y ...: every factor paired
        ids = sorted(c_.get_id() for c_ in ch)
        return len(ids) % 2 == 0 and all(ids[i] == ids[i + 1] for i in range(0, len(ids), 2))
    return False


def _trivial_goal(g):
    """goals decided syntactically: sum-of-squares >= 0"""
    if z3.is_app(g) and g.decl().kind() == z3.Z3_OP_GE and z3.is_rational_value(g.arg(1)) and g.arg(1).numerator_as_long() <= 0:
        return _is_sos(g.arg(0))
    if z3.is_app(g) and g.decl().kind() == z3.Z3_OP_LE and z3.is_rational_value(g.arg(0)) and g.arg(0).numerator_as_long() <= 0:
        return _is_sos(g.arg(1))
    return False


def _abstract_shared(formulas, skip=None):
    """generalisation tactic: replace every maximal arithmetic subterm that occurs in at least two of the
    formulas by a fresh constant.  If the generalised query is unsat so is the original (validity of a
    generalisation implies validity of the instance)."""
    occ = {}
    def collect(e, seen):
        i = e.get_id()
        if i in seen:
            return
        seen.add(i)
        if z3.is_app(e) and e.num_args() > 0:
            if e.sort() == z3.RealSort():
                occ.setdefault(i, [0, e])
            for ch in e.children():
                collect(ch, seen)
    per = []
    for f in formulas:
        seen = set()
        collect(f, seen)
        per.append(seen)
    for seen in per:
        for i in seen:
            if i in occ:
                occ[i][0] += 1
    shared = {i for i, (n, e) in occ.items() if n >= 2}
    if not shared:
        return None
    subs = {}
    def pick(e, done):
        i = e.get_id()
        if i in done:
            return
        done.add(i)
        if i in shared and (skip is None or i not in skip):
            subs[i] = e
            return
        for ch in e.children():
            pick(ch, done)
    done = set()
    for f in formulas:
        pick(f, done)
    if not subs:
        return None
    pairs = [(e, z3.Real(f"abs!{k}")) for k, e in enumerate(subs.values())]
    if skip is not None:
        skip |= set(subs.keys())
    return [z3.substitute(f, *pairs) for f in formulas], len(pairs)


def prove(hyps, goal, timeout_ms, safety_hyps=(), evals=None):
    """staged over growing hypothesis sets; per stage: z3 (short budget), then an ideal-membership
    certificate checked by z3 (equality goals).  The last stage adds z3 with the full budget, the nlsat
    tactic and cvc5.  Only the last stage (all hypotheses) may refute."""
    from . import cas
    neg = z3.Not(goal)
    total = 0.0
    quick = min(1500, timeout_ms)
    stages = _stages(hyps, goal)
    info = None
    for si, hs in enumerate(stages):
        last = si == len(stages) - 1
        v, m, t = core.z3_check(hs, neg, quick, evals=evals if (si == len(stages) - 1) else None)
        total += t
        if v == 'unsat':
            return dict(verdict='proved', by='z3', secs=total)
        if v == 'sat' and last:
            return dict(verdict='refuted', by='z3', secs=total, model=m)
        t0 = time.time()
        ok, info = cas.cert_prove(list(hs) + list(safety_hyps), goal, budget_s=min(15.0 if not last else 30.0, timeout_ms / 1000.0))
        total += time.time() - t0
        if ok:
            return dict(verdict='proved', by='cert+z3', secs=total)
    skip = set()
    for level in range(3):      # progressively finer generalisations (shared subterms of shared subterms)
        ab = _abstract_shared(list(hyps) + [neg], skip)
        if ab is None:
            break
        fs, n = ab
        v, m, t = core.z3_check(fs[:-1], fs[-1], min(3000, timeout_ms))
        total += t
        if v == 'unsat':
            return dict(verdict='proved', by='z3-abs', secs=total)
    if timeout_ms > quick:
        v, m, t = core.z3_check(hyps, neg, timeout_ms, evals=evals)
        total += t
        if v == 'unsat':
            return dict(verdict='proved', by='z3', secs=total)
        if v == 'sat':
            return dict(verdict='refuted', by='z3', secs=total, model=m)
    v, m, t = core.z3_check(hyps, neg, timeout_ms / 2, tactic='qfnra-nlsat', evals=evals)
    total += t
    if v == 'unsat':
        return dict(verdict='proved', by='z3-nlsat', secs=total)
    if v == 'sat':
        return dict(verdict='refuted', by='z3-nlsat', secs=total, model=m)
    v, m, t = core.cvc5_check(hyps, neg, timeout_ms / 2)
    total += t
    if v == 'unsat':
        return dict(verdict='proved', by='cvc5', secs=total)
    if v == 'sat':
        return dict(verdict='refuted', by='cvc5', secs=total, model=None)
    return dict(verdict='undecided', by='-', secs=total, cert=str(info)[:100])


def input_evals(ctx, pairs=None):
    """expressions whose model values make up a replayable input"""
    ev = {}
    for name, v in ctx.inputs.items():
        ev[name] = v
    ev['__pi__'] = PI
    for name in ctx.angles:
        best = None
        for (atom, D), (cz, sz) in (pairs or {}).items():
            if atom == name and (best is None or D > best[0]):
                best = (D, cz, sz)
        if best is not None:
            ev['__pair__' + name] = [z3.RealVal(best[0]), best[1], best[2]]
    return ev


def model_inputs(m, ctx, pairs=None):
    """m: DictModel produced with input_evals()"""
    out = {}
    for name in ctx.inputs:
        v = m.get(name)
        out[name] = v if v is not None else 0.0
    if m.get('__pi__') is not None:
        out['__pi__'] = m.get('__pi__')
    # an input angle is replayed as the angle of its (cos, sin) pair: the abstraction only knows the pair
    for name in ctx.angles:
        pr = m.get('__pair__' + name)
        if pr and None not in pr:
            out['th_' + name] = pr[0] * math.atan2(pr[2], pr[1])
            out['__exact_angles__'] = 1.0
    return out


def _exc_origin(ex):
    tb = traceback.extract_tb(ex.__traceback__)
    if not tb:
        return 'unknown'
    for fr in reversed(tb):
        if '/ahrs/' in fr.filename and '/rvc/' not in fr.filename:
            return f"repo:{fr.filename.split('/ahrs/')[-1]}:{fr.lineno}"
        if '/contracts/' in fr.filename:
            return f"contract:{os.path.basename(fr.filename)}:{fr.lineno}"
    return f"engine:{os.path.basename(tb[-1].filename)}:{tb[-1].lineno}"


def E_static_assume(p):
    return p.assume


def run_unit(unit, tier='quick'):
    """explore + discharge one unit; returns a JSON-able dict"""
    t0 = time.time()
    timeout_ms = unit.opts.get('timeout_ms', 60000 if tier == 'quick' else 300000)
    budget_s = unit.opts.get('budget_s', 600 if tier == 'quick' else 3600)
    ctx = Ctx(unit)
    res = dict(uid=unit.uid, prop=unit.prop, name=unit.name, obligations={}, paths=0, status='ok',
               notes=[], axioms=[], effects=[], samples=[], covers=[], solver_s=0.0, explore_s=0.0)
    loader.LABELS_ON[0] = bool(unit.opts.get('labels'))
    E.feas_timeout = unit.opts.get('feas_timeout_ms', 3000)
    E.loop_bounds = unit.opts.get('loop_bounds', {})
    E.used_pi = False
    E.used_e = False
    from . import cas
    if unit.opts.get('cas', True):
        E.hooks['cut_sqrt'] = lambda t: cas.sqrt_cut(t, E)
        E.hooks['cut_div'] = lambda a, b: cas.div_cut(a, b, E)
    else:
        E.hooks.pop('cut_sqrt', None)
        E.hooks.pop('cut_div', None)

    def run():
        ctx._reset_path()
        try:
            unit.fn(ctx)
        except Skip:
            raise Infeasible()
        ctx.finish()
        return None

    def on_path(p):
        p.goals = list(ctx.goals)
        p.extra_info = dict(pairs=dict(trig.A.pairs))
        p.observed = dict(ctx.observed)
        p.notes = list(ctx.notes)
        if p.outcome[0] == 'raises':
            # goals stated before the exception still count; the exception itself is an obligation
            ex = p.outcome[1]
            origin = _exc_origin(ex)
            p.notes.append(f"raised {type(ex).__name__}: {str(ex)[:120]} at {origin}")
            if origin.startswith('repo:'):
                p.goals.append((f"no-exception", z3.BoolVal(False), 'exc'))
            else:
                p.goals.append((f"engine-error:{type(ex).__name__}:{str(ex)[:80]}@{origin}", z3.BoolVal(False), 'engine'))
        else:
            pass

    try:
        paths = explore(run, assume=[], on_path=on_path, max_paths=unit.opts.get('max_paths', 3000),
                        prefix=[ch == 'T' for ch in unit.params.get('shard', '')],
                        deadline=t0 + budget_s)
    except EngineUnsupported as ex:
        res['status'] = 'unsupported'
        res['notes'].append(f"EngineUnsupported: {ex}")
        res['wall_s'] = time.time() - t0
        return res
    res['explore_s'] = time.time() - t0
    if TRACE:
        print(f"[trace] {unit.uid}: explored {len(paths)} paths in {res['explore_s']:.1f}s {E.stats}", file=sys.stderr, flush=True)
    res['paths'] = len(paths)
    res['engine_stats'] = dict(E.stats)

    agg = {}     # obligation id -> dict
    def ob(oid):
        return agg.setdefault(oid, dict(id=oid, instances=0, proved=0, refuted=0, undecided=0, by={}, secs=0.0,
                                        kind='', witness=None, detail=[]))

    for pi, p in enumerate(paths):
        hyps = list(p.assume) + list(p.pc) + list(p.defs) + list(p.extra)
        links = list(p.links)
        safety_hyps = [cond for (kind, cond, site) in p.oblig]
        base_assume = list(E_static_assume(p))
        res['axioms'] = sorted(set(res['axioms']) | p.axioms)
        for ef in p.effects:
            if list(ef) not in res['effects']:
                res['effects'].append(list(ef))
        for n in p.notes:
            if n not in res['notes']:
                res['notes'].append(n)
        # cover: the path's hypotheses must be satisfiable (vacuity guard + cross-check input)
        ev = input_evals(ctx, p.extra_info['pairs'])
        okeys = {}
        for k, val in p.observed.items():
            try:
                arr = _np.asarray(val, dtype=object)
                ev['__obs__' + k] = [toz(e) for e in arr.ravel()]
                okeys[k] = True
            except Exception:
                okeys[k] = False
        if (unit.opts.get('no_crosscheck') or time.time() - t0 > budget_s) and any(cv.get('verdict') == 'sat' for cv in res['covers']):
            v, m, t = 'skipped', None, 0.0      # vacuity guard already satisfied; no model needed
        else:
            v, m, t = core.z3_check(hyps + links, z3.BoolVal(True), 4000, evals=ev)
        cover = dict(path=pi, taken=''.join('T' if b else 'F' for b in p.taken), verdict=v)
        if v == 'unsat':
            cover['dropped'] = True
            res['covers'].append(cover)
            continue
        if v == 'sat' and m is not None:
            cover['inputs'] = model_inputs(m, ctx, p.extra_info['pairs'])
            obs = {}
            for k, ok in okeys.items():
                vals = m.get('__obs__' + k) if ok else None
                obs[k] = vals if (vals is not None and None not in vals) else None
            cover['observed'] = obs
            cover['outcome'] = p.outcome[0] if p.outcome[0] == 'ok' else type(p.outcome[1]).__name__
        res['covers'].append(cover)
        items = [(n, g, k) for (n, g, k) in p.goals]
        for (kind, cond, site) in ([] if unit.opts.get('no_safety') else p.oblig):
            items.append((_Marked(f"safe:{kind}", site[1]), cond, 'safety'))
        for (name, g, kind) in items:
            o = ob(str(name)); o['instances'] += 1; o['kind'] = kind
            gs = z3.simplify(g) if not z3.is_false(g) else g
            if z3.is_false(gs):
                g = gs
            if z3.is_true(gs) or _trivial_goal(g):
                o['proved'] += 1; o['by']['trivial'] = o['by'].get('trivial', 0) + 1
                continue
            if kind == 'engine':
                o['undecided'] += 1; res['status'] = 'engine-error'
                continue
            if time.time() - t0 > budget_s:
                o['undecided'] += 1
                o['detail'].append('unit time budget exhausted')
                if 'unit time budget exhausted' not in res['notes']:
                    res['notes'].append('unit time budget exhausted')
                continue
            hy = hyps
            if isinstance(name, _Marked) and isinstance(name.nassume, tuple):
                na, npc, nd = name.nassume        # safety: only what precedes the operation
                hy = list(p.assume[:na]) + list(p.pc[:npc]) + list(p.defs[:nd]) + list(p.extra)
            elif isinstance(name, _Marked):
                hy = list(p.assume[:name.nassume]) + list(p.pc) + list(p.defs) + list(p.extra)
            sh = safety_hyps if kind != 'safety' else ()
            ev = input_evals(ctx, p.extra_info['pairs'])
            r = prove(hy, g, timeout_ms, sh, evals=ev)
            if TRACE:
                print(f"[trace] path {pi} {str(name)}: {r['verdict']} by {r['by']} {r['secs']:.2f}s", file=sys.stderr, flush=True)
            if r['verdict'] != 'proved' and links:
                # generalised query failed: retry with the definitions behind the summaries revealed
                r2 = prove(hy + links, g, timeout_ms, sh, evals=ev)
                r2['secs'] += r['secs']
                r = r2
            o['secs'] += r['secs']; res['solver_s'] += r['secs']
            o['max_secs'] = max(o.get('max_secs', 0.0), r['secs'])
            if r['verdict'] == 'proved':
                o['proved'] += 1; o['by'][r['by']] = o['by'].get(r['by'], 0) + 1
                if len(res['samples']) < 3 and kind != 'safety':
                    res['samples'].append(dict(obligation=f"{unit.uid}::{str(name)}", path=cover['taken'],
                                               smt2=core.to_smt2(hyps, z3.Not(g))[:1500]))
            elif r['verdict'] == 'refuted':
                o['refuted'] += 1
                if o['witness'] is None:
                    w = dict(path=cover['taken'], by=r['by'])
                    if r.get('model') is not None:
                        w['inputs'] = model_inputs(r['model'], ctx, p.extra_info['pairs'])
                    w['goal'] = str(g)[:400]
                    o['witness'] = w
            else:
                o['undecided'] += 1
                o['detail'].append(f"undecided on path {cover['taken']}")
    live = [c for c in res['covers'] if not c.get('dropped')]
    if not live:
        if unit.params.get('shard'):
            res['notes'].append('empty shard (forced prefix infeasible)')
        else:
            res['status'] = 'vacuous'
    res['obligations'] = agg
    res['input_names'] = list(ctx.inputs.keys())
    res['wall_s'] = time.time() - t0
    return res
