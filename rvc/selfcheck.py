"""tool self-test run by setup.sh: the engine must prove a true identity and refute a false one"""
import sys, os
sys.path.insert(0, os.path.dirname(os.path.dirname(os.path.abspath(__file__))))
import z3
from rvc import core
x, y = z3.Reals('x y')
v, m, t = core.z3_check([x * x + y * y == 1], z3.Not((x * y) * 2 <= 1), 10000)
assert v == 'unsat', v
v, m, t = core.z3_check([x * x + y * y == 1], z3.Not(x * y <= 0), 10000)
assert v == 'sat', v
print("rvc selfcheck ok")
