"""rvc.cas -- certificate back end: the CAS proposes, the solver disposes.

For an equality goal  lhs == rhs  under polynomial equality hypotheses G_i == 0 sympy looks for
cofactors; what is *used* is only the unconditional polynomial identity
        lhs - rhs  ==  sum_i Q_i * G_i
which z3 checks by normalising both sides (no search).  sympy is never trusted.
Non-polynomial subterms (divisions by non-constants, uninterpreted applications) are abstracted
by fresh symbols; a division a/b contributes the hypothesis  d*b - a == 0  (valid because b != 0 is a
safety obligation of the same path).
"""
import signal, time
import z3
import sympy as sp
from .core import Budget


class _Conv:
    def __init__(self):
        self.memo = {}
        self.syms = {}        # sympy symbol name -> z3 expr it stands for
        self.div_defs = []    # (sympy poly d*b - a)
        self.nodes = 0

    def sym_for(self, e, prefix):
        name = f"{prefix}{e.get_id()}"
        s = sp.Symbol(name)
        self.syms[name] = e
        return s

    def conv(self, e):
        i = e.get_id()
        if i in self.memo:
            return self.memo[i]
        self.nodes += 1
        if self.nodes > 20000:
            raise Budget("term too large for the CAS")
        r = self._conv(e)
        self.memo[i] = r
        return r

    def _conv(self, e):
        if z3.is_rational_value(e):
            return sp.Rational(e.numerator_as_long(), e.denominator_as_long())
        if z3.is_const(e) and e.decl().kind() == z3.Z3_OP_UNINTERPRETED:
            name = str(e)
            self.syms[name] = e
            return sp.Symbol(name)
        k = e.decl().kind()
        if k == z3.Z3_OP_ADD:
            return sp.Add(*[self.conv(c) for c in e.children()])
        if k == z3.Z3_OP_MUL:
            return sp.Mul(*[self.conv(c) for c in e.children()])
        if k == z3.Z3_OP_SUB:
            ch = [self.conv(c) for c in e.children()]
            return ch[0] - sp.Add(*ch[1:])
        if k == z3.Z3_OP_UMINUS:
            return -self.conv(e.arg(0))
        if k == z3.Z3_OP_POWER:
            b, x = e.arg(0), e.arg(1)
            if z3.is_rational_value(x) and x.denominator_as_long() == 1 and x.numerator_as_long() >= 0:
                return self.conv(b) ** x.numerator_as_long()
        if k == z3.Z3_OP_DIV:
            a, b = e.arg(0), e.arg(1)
            if z3.is_rational_value(b):
                return self.conv(a) / sp.Rational(b.numerator_as_long(), b.denominator_as_long())
            d = self.sym_for(e, 'dv')
            bs = self.conv(b)
            self.div_defs.append(sp.expand(d * bs - self.conv(a)))
            # the denominator is invertible (b != 0 is a safety obligation): iv*b == 1 (Rabinowitsch)
            ivname = f"iv{b.get_id()}"
            if ivname not in self.syms:
                self.syms[ivname] = z3.RealVal(1) / b
                self.div_defs.append(sp.expand(sp.Symbol(ivname) * bs - 1))
            return d
        if k == z3.Z3_OP_TO_REAL:
            return self.conv(e.arg(0))
        # anything else (If, uninterpreted functions): opaque symbol
        return self.sym_for(e, 'op')


def _s2z(e, syms):
    if e.is_Symbol:
        return syms[e.name]
    if e.is_Rational:
        return z3.RealVal(f"{e.p}/{e.q}")
    if e.is_Add:
        return z3.Sum([_s2z(a, syms) for a in e.args])
    if e.is_Mul:
        r = None
        for a in e.args:
            t = _s2z(a, syms)
            r = t if r is None else r * t
        return r
    if e.is_Pow and e.exp.is_Integer and e.exp >= 0:
        b = _s2z(e.base, syms)
        r = z3.RealVal(1)
        for _ in range(int(e.exp)):
            r = r * b
        return r
    raise NotImplementedError(str(e)[:80])


class _Alarm:
    def __init__(self, secs):
        self.secs = secs

    def __enter__(self):
        def h(sig, frm):
            raise Budget("CAS time budget")
        self.old = signal.signal(signal.SIGALRM, h)
        signal.setitimer(signal.ITIMER_REAL, self.secs)

    def __exit__(self, *a):
        signal.setitimer(signal.ITIMER_REAL, 0)
        signal.signal(signal.SIGALRM, self.old)
        return False


def _eq_atoms(hyps):
    out = []
    for h in hyps:
        if z3.is_and(h):
            out += _eq_atoms(h.children())
        elif z3.is_eq(h) and h.arg(0).sort() == z3.RealSort():
            out.append(h)
    return out


def _identity_holds(lhs, rhs):
    """unconditional polynomial identity lhs == rhs, decided by z3 (normalisation first, solver second)"""
    from .core import guarded_check
    d = z3.simplify(lhs - rhs, som=True)
    if z3.is_rational_value(d):
        return d.numerator_as_long() == 0
    from .core import hard_check
    return hard_check([], lhs != rhs, 5000)[0] == 'unsat'


def cert_prove(hyps, goal, budget_s=20.0):
    """try to prove an equality goal (or a conjunction of equalities) by an ideal-membership certificate.
    returns (True, info) when z3 accepted the certificate, else (False, reason)"""
    goals = _eq_atoms([goal])
    if not goals or (z3.is_and(goal) and len(goals) != len(goal.children())) or not (z3.is_eq(goal) or z3.is_and(goal)):
        return False, 'goal is not a conjunction of real equalities'
    t0 = time.time()
    try:
        with _Alarm(budget_s):
            cv = _Conv()
            fs = [sp.expand(cv.conv(g.arg(0)) - cv.conv(g.arg(1))) for g in goals]
            G = []
            Gz = []
            for h in _eq_atoms(hyps):
                p = sp.expand(cv.conv(h.arg(0)) - cv.conv(h.arg(1)))
                if p != 0:
                    G.append(p)
            ndiv = 0
            # divisions met while converting goal and hypotheses add their defining equations
            while ndiv < len(cv.div_defs):
                G.append(cv.div_defs[ndiv]); ndiv += 1
            # keep only hypotheses that share symbols (transitively) with the goal
            rel = set().union(*[f.free_symbols for f in fs]) if fs else set()
            changed = True
            while changed:
                changed = False
                for p in G:
                    if p.free_symbols & rel and not p.free_symbols <= rel:
                        rel |= p.free_symbols; changed = True
            G = [p for p in G if p.free_symbols & rel]
            if not G:
                ok = all(f == 0 for f in fs)
                return ok, 'identity' if ok else 'no usable hypotheses'
            xs = sorted(rel, key=lambda s: s.name)
            # defined symbols (inverses, divisions, sqrt / fresh variables) first in the order
            xs.sort(key=lambda s: (0 if s.name.startswith('iv') else 1 if s.name.startswith('dv') else 2 if '!' in s.name else 3, s.name))
            R = sp.QQ.old_poly_ring(*xs)
            I = R.ideal(*G)
            certs = []
            for f in fs:
                if f == 0:
                    certs.append([sp.Integer(0)] * len(G)); continue
                if not I.contains(f):
                    return False, 'not in the ideal of the equality hypotheses'
                co = I.in_terms_of_generators(f)
                certs.append([R.to_sympy(c) for c in co])
    except Budget as ex:
        return False, f'budget: {ex}'
    except Exception as ex:      # sympy failure is never fatal
        return False, f'cas error: {type(ex).__name__}: {str(ex)[:80]}'
    # the solver checks the unconditional identities  f == sum_i Q_i * G_i
    syms = dict(cv.syms)
    for g, co in zip(goals, certs):
        hz = z3.RealVal(0)
        for c, p in zip(co, G):
            if c != 0:
                hz = hz + _s2z(sp.expand(c), syms) * _s2z(p, syms)
        ident = (g.arg(0) - g.arg(1)) == hz
        # division symbols stand for the z3 division terms themselves, so the identity is over the same atoms;
        # the hypotheses d*b == a and iv*b == 1 used for them hold because b != 0 is a safety obligation of the path
        if not _identity_holds(g.arg(0) - g.arg(1), hz):
            return False, 'solver did not accept the certificate identity'
    return True, dict(secs=time.time() - t0, hyps=len(G))


def _hyp_polys(cv, hyps):
    G = []
    for h in _eq_atoms(hyps):
        p = sp.expand(cv.conv(h.arg(0)) - cv.conv(h.arg(1)))
        if p != 0 and p.free_symbols and not any(s.name.startswith('op') for s in p.free_symbols):
            G.append(p)
    return G


def _symkey(s):
    return (0 if s.name.startswith('iv') else 1 if s.name.startswith('dv') else 2 if '!' in s.name else 3, s.name)


def _normal_forms(expr, G, use_gb=True):
    """candidate normal forms of expr modulo <G> (untrusted proposals): expr itself, multivariate division
    under cyclic lex orders, then the normal form w.r.t. a Groebner basis"""
    seen = set()
    def emit(e):
        e = sp.expand(e)
        if e in seen:
            return None
        seen.add(e)
        return e
    e = emit(expr)
    if e is not None:
        yield e
    if not G:
        return
    syms = sorted(set().union(*[p.free_symbols for p in G]) | expr.free_symbols, key=_symkey)
    # only hypotheses connected to the expression
    rel = set(expr.free_symbols)
    changed = True
    while changed:
        changed = False
        for p in G:
            if p.free_symbols & rel and not p.free_symbols <= rel:
                rel |= p.free_symbols; changed = True
    Gr = [p for p in G if p.free_symbols & rel]
    if not Gr:
        return
    syms = [s_ for s_ in syms if s_ in rel]
    for k in range(min(len(syms), 6)):
        order = syms[k:] + syms[:k]
        try:
            _, r = sp.reduced(expr, Gr, *order, order='lex')
        except Exception:
            continue
        e = emit(r)
        if e is not None:
            yield e
    if use_gb:
        for od in ('grevlex', 'lex'):
            try:
                GB = sp.groebner(Gr, *syms, order=od)
                _, r = GB.reduce(expr)
            except Budget:
                raise
            except Exception:
                continue
            e = emit(r)
            if e is not None:
                yield e


# ------------------------------------------------------------------ certified square roots
SQRT_LOG = []


def _perfect_square(p):
    """sympy expression S with S**2 == p (p polynomial), or None"""
    if p == 0:
        return sp.Integer(0)
    try:
        c, fs = sp.factor_list(p)
    except Exception:
        return None
    if c < 0:
        return None
    rc = sp.sqrt(c)
    if not rc.is_Rational:
        return None
    out = rc
    for b, k in fs:
        if k % 2:
            return None
        out = out * b ** (k // 2)
    return out


def sqrt_cut(t, E, budget_s=3.0, max_nodes=400):
    """called for sqrt(t): if the radicand is a perfect square S**2 modulo the path's equality hypotheses
    (certificate checked by z3) return +S or -S (the sign is a fork); otherwise None.
    Rational radicands N/D are handled as sqrt(N*D)/|D| when N*D is a perfect square."""
    from .core import Term
    if t.nodes > max_nodes:
        return None
    hyps = E.hyps()
    try:
        with _Alarm(budget_s):
            cv = _Conv()
            rad = sp.expand(cv.conv(t.z))
            G = _hyp_polys(cv, hyps) + list(cv.div_defs)
            S = None
            for cand in _normal_forms(rad, G):
                if any(sy.name.startswith('dv') for sy in cand.free_symbols):
                    continue
                S = _perfect_square(cand)
                if S is not None:
                    break
            if S is None:
                SQRT_LOG.append(('no-square', str(rad)[:80]))
                return None
    except Budget:
        SQRT_LOG.append(('budget', t.nodes))
        return None
    except Exception as ex:
        SQRT_LOG.append(('error', str(ex)[:80]))
        return None
    Sz = _s2z(sp.expand(S), cv.syms) if S != 0 else z3.RealVal(0)
    Sz = z3.simplify(Sz)
    ok, info = cert_prove(hyps, t.z == Sz * Sz, budget_s=budget_s * 2)
    if not ok:
        # direct z3 attempt (cheap identity cases)
        from .core import hard_check
        ok = hard_check(hyps, t.z != Sz * Sz, 2000)[0] == 'unsat'
    SQRT_LOG.append(('cut', str(S)[:60], ok))
    E.stats['sqrt_cuts'] = E.stats.get('sqrt_cuts', 0) + (1 if ok else 0)
    if not ok:
        return None
    E.axioms_used.add('simp:sqrt(certified)')
    if z3.is_rational_value(Sz):
        from .core import _const_val
        v = _const_val(Sz)
        return float(abs(v)) if v.denominator != 1 else float(abs(v))
    if E.decide(Sz >= 0):
        return Term(Sz, t.nodes)
    return Term(-Sz, t.nodes)


# ------------------------------------------------------------------ certified exact division
def div_cut(a, b, E, budget_s=2.0, max_nodes=300):
    """called for a/b: when the quotient is a polynomial N modulo the path's equality hypotheses
    (a == N*b certified; b != 0 is the safety obligation) return N, else None"""
    from .core import Term, toz, isnum, _const_val
    t = None
    an = a.nodes if isinstance(a, Term) else 1
    if an + b.nodes > max_nodes:
        return None
    az, bz = toz(a), toz(b)
    hyps = E.hyps()
    try:
        with _Alarm(budget_s):
            cv = _Conv()
            A = sp.expand(cv.conv(az)); B = sp.expand(cv.conv(bz))
            G = _hyp_polys(cv, hyps) + list(cv.div_defs)
            N = None
            for cand in _normal_forms(A, G, use_gb=False):
                q = sp.cancel(cand / B)
                num, den = sp.fraction(q)
                if den.is_Rational and den != 0:
                    N = sp.expand(q)
                    break
            if N is None:
                return None
    except Budget:
        return None
    except Exception:
        return None
    Nz = z3.simplify(_s2z(N, cv.syms)) if N != 0 else z3.RealVal(0)
    ok, info = cert_prove(hyps, az == Nz * bz, budget_s=budget_s * 2)
    if not ok:
        return None
    E.stats['div_cuts'] = E.stats.get('div_cuts', 0) + 1
    E.axioms_used.add('simp:div(certified)')
    if z3.is_rational_value(Nz):
        return float(_const_val(Nz))
    return Term(Nz, max(1, (an + b.nodes) // 2))
