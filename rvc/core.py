"""rvc.core -- real-valued terms, path exploration and solver access.

Everything the real ahrs code computes on is either a Python number or a
`Term` (a z3 Real expression).  Arrays are genuine numpy object arrays.
"""
import math, time, os
from fractions import Fraction
import numpy as _np
import z3


class Infeasible(BaseException):
    """current forced-decision prefix is infeasible (control flow, not an error)"""


class EngineUnsupported(BaseException):
    """the real code used something the engine has no sound model for"""


class Budget(BaseException):
    """a CAS call ran over its budget (BaseException: must not be swallowed)"""


# ------------------------------------------------------------------ constants
PI = z3.Real('pi')
PI_FACTS = [PI > z3.RealVal('3.14159265358979'), PI < z3.RealVal('3.14159265358980')]
EUL = z3.Real('euler_e')
EUL_FACTS = [EUL > z3.RealVal('2.718281828'), EUL < z3.RealVal('2.718281829')]


def _rat(fr):
    return z3.RealVal(f"{fr.numerator}/{fr.denominator}")


def pi_multiple(x):
    """if float x is (to 1 ulp) a simple rational multiple of math.pi return that Fraction"""
    if x == 0.0 or not math.isfinite(x):
        return None
    r = x / math.pi
    fr = Fraction(r).limit_denominator(4000)
    if fr == 0 or abs(fr.numerator) > 4000:
        return None
    back = float(fr) * math.pi
    if back == x or abs(back - x) <= 2 * math.ulp(x):
        # refuse rationals that are themselves plain decimals written in the code (e.g. 0.5)
        return fr
    return None


def inv_pi_multiple(x):
    """if float x is (to 2 ulp) a simple rational divided by math.pi (e.g. RAD2DEG = 180/pi) return that Fraction"""
    if x == 0.0 or not math.isfinite(x):
        return None
    fr = Fraction(x * math.pi).limit_denominator(4000)
    if fr == 0 or abs(fr.numerator) > 400000:
        return None
    back = float(fr) / math.pi
    if back == x or abs(back - x) <= 2 * math.ulp(x):
        return fr
    return None


def float_fraction(x):
    """the rational a float literal stands for: its shortest decimal representation (repr), e.g. 1e-8 is
    1/10**8 and 0.1 is 1/10 -- not the 53-bit binary neighbour.  Within A-REAL (rounding is ignored anyway)
    and it keeps solver coefficients small."""
    return Fraction(repr(float(x)))


def toz(x):
    """lift a value to a z3 Real expression (floats: exact binary rationals; pi multiples symbolic)"""
    if isinstance(x, Term):
        return x.z
    if isinstance(x, (bool, _np.bool_)):
        return z3.RealVal(1 if x else 0)
    if isinstance(x, (int, _np.integer)):
        return z3.RealVal(int(x))
    if isinstance(x, (float, _np.floating)):
        x = float(x)
        if not math.isfinite(x):
            # the real code produced NaN/inf on concrete values (e.g. 0.0/0.0 in NumPy scalars): over the reals this is an
            # invalid operation -- reported like an exception raised by the code (obligation `no-exception`), never modelled
            raise FloatingPointError(f"non-finite value {x} produced by the code under verification")
        fr = pi_multiple(x)
        if fr is not None:
            E.used_pi = True
            return _rat(fr) * PI
        fr = inv_pi_multiple(x)
        if fr is not None:
            E.used_pi = True
            return _rat(fr) / PI
        if x == math.e:
            E.used_e = True
            return EUL
        return _rat(float_fraction(x))
    if isinstance(x, Fraction):
        return _rat(x)
    if isinstance(x, z3.ExprRef):
        return x
    if isinstance(x, BoolT):
        raise TypeError("boolean term used in arithmetic")
    raise TypeError(f"cannot lift {type(x)} to a real term")


def isnum(x):
    return isinstance(x, (int, float, _np.floating, _np.integer, Fraction)) and not isinstance(x, (bool, _np.bool_))


def is_sym(x):
    """True when x is, or contains, a symbolic value"""
    if isinstance(x, (Term, BoolT)):
        return True
    if isinstance(x, _np.ndarray):
        return x.dtype == object and any(isinstance(e, (Term, BoolT)) for e in x.flat)
    if isinstance(x, (list, tuple)):
        return any(is_sym(e) for e in x)
    return False


# ------------------------------------------------------------------ engine
class Engine:
    def __init__(self):
        self.assume = []        # input hypotheses of the running contract (z3 bools)
        self.symbolic = False
        self.feas_timeout = 3000
        self.used_pi = False
        self.used_e = False
        self.stats = dict(feas_checks=0, feas_s=0.0, decisions=0, cache_hits=0)
        self.nfresh = 0
        self.hooks = {}         # name -> callable (cas cut, label, ...)
        self.reset_all()

    def reset_all(self):
        self.pending = []
        self.begin_path([])

    def begin_path(self, forced):
        self.forced = list(forced)
        self.taken = []
        self.pc = []            # path condition
        self.defs = []          # definitional constraints (sqrt vars, atoms, summaries ...)
        self.oblig = []         # safety obligations: (kind, z3 bool, site)
        self.effects = []       # ("RNG"|"CLOCK"|..., detail)
        self.dcache = {}
        self.path_assume = []   # assumptions added by the contract on this path
        self.links = []         # fresh == old-term definitions behind summaries (not used in goal queries)
        self.labels = {}
        self.nfresh = 0
        self.axioms_used = set()
        for h in self.hooks.get('begin_path', []):
            h()

    def fresh(self, base):
        self.nfresh += 1
        return z3.Real(f"{base}!{self.nfresh}")

    def hyps(self):
        extra = []
        if self.used_pi:
            extra += PI_FACTS
        if self.used_e:
            extra += EUL_FACTS
        return list(self.assume) + list(self.path_assume) + list(self.pc) + list(self.defs) + extra

    def feasible(self, extra):
        t = time.time()
        v, _ = hard_check(self.hyps(), extra, self.feas_timeout)
        self.stats['feas_checks'] += 1
        self.stats['feas_s'] += time.time() - t
        return v != 'unsat'

    def decide(self, cond):
        """cond: z3 BoolRef; returns the Python bool of the branch taken on this path"""
        sc = z3.simplify(cond)      # only to spot constants: the path condition keeps the original shape
        if z3.is_true(sc):
            return True
        if z3.is_false(sc):
            return False
        key = cond.get_id()
        if key in self.dcache:
            self.stats['cache_hits'] += 1
            return self.dcache[key][1]
        # negated form cached?
        if z3.is_not(cond) and cond.arg(0).get_id() in self.dcache:
            return not self.dcache[cond.arg(0).get_id()][1]
        i = len(self.taken)
        self.stats['decisions'] += 1
        if i < len(self.forced):
            v = self.forced[i]
            if v is None:       # "free" decision in a forced prefix
                v = self._choose(cond)
        else:
            v = self._choose(cond)
        self.taken.append(v)
        if not self._implied:
            self.pc.append(cond if v else z3.Not(cond))
        self._implied = False
        self.dcache[key] = (cond, v)
        return v

    _implied = False

    def _choose(self, cond):
        """pick a branch; when the other branch is *proved* infeasible the condition is implied by the
        path so far and is not added to the path condition (keeps later queries small)"""
        ft = self.feasible(cond)
        ff = self.feasible(z3.Not(cond))
        if ft and ff:
            self.pending.append(self.taken + [False])
            return True
        if ft:
            self._implied = True
            return True
        if ff:
            self._implied = True
            return False
        raise Infeasible()

    def assume_here(self, cond):
        """contract-level assumption on the current path (a precondition stated mid-script)"""
        if isinstance(cond, BoolT):
            cond = cond.z
        if isinstance(cond, (bool, _np.bool_)):
            if not cond:
                raise Infeasible()
            return
        self.path_assume.append(cond)
        if not self.feasible(z3.BoolVal(True)):
            raise Infeasible()

    def obligation(self, kind, cond, site=None):
        """safety obligation; it is proved from the hypotheses that exist at this point of the path only"""
        if isinstance(cond, BoolT):
            cond = cond.z
        pos = (len(self.path_assume), len(self.pc), len(self.defs))
        self.oblig.append((kind, cond, (site or _site(), pos)))


def _site():
    """innermost frame inside /repo (file:line) for reporting"""
    import sys
    f = sys._getframe(2)
    best = None
    while f is not None:
        fn = f.f_code.co_filename
        if '/ahrs/' in fn and '/rvc/' not in fn:
            best = f"{fn.split('/ahrs/')[-1]}:{f.f_lineno}"
            break
        f = f.f_back
    return best or '?'


E = Engine()


# ------------------------------------------------------------------ booleans
class BoolT:
    __slots__ = ('z',)

    def __init__(self, z):
        self.z = z

    def __bool__(self):
        return E.decide(self.z)

    def __and__(self, o):
        return BoolT(z3.And(self.z, tob(o)))
    __rand__ = __and__

    def __or__(self, o):
        return BoolT(z3.Or(self.z, tob(o)))
    __ror__ = __or__

    def __invert__(self):
        return BoolT(z3.Not(self.z))

    def __xor__(self, o):
        return BoolT(z3.Xor(self.z, tob(o)))
    __rxor__ = __xor__

    def __repr__(self):
        return f"<bool {self.z}>"

    # arithmetic use of a boolean (sum(~mask)) forks
    def __add__(self, o):
        return (1 if bool(self) else 0) + o
    __radd__ = __add__

    def __index__(self):
        return 1 if bool(self) else 0

    def __int__(self):
        return 1 if bool(self) else 0


def tob(o):
    if isinstance(o, BoolT):
        return o.z
    if isinstance(o, z3.BoolRef):
        return o
    if isinstance(o, Term):
        return o.z != 0
    return z3.BoolVal(bool(o))


# ------------------------------------------------------------------ terms
def _const_val(z):
    """Fraction if z is a rational numeral else None"""
    if z3.is_rational_value(z):
        return Fraction(z.numerator_as_long(), z.denominator_as_long())
    return None


class Term:
    __slots__ = ('z', '_s', 'nodes', '__weakref__')

    def __init__(self, z, nodes=1):
        self.z = z
        self._s = None
        self.nodes = nodes

    def __repr__(self):
        s = str(self.z)
        return f"<{s[:200]}>"

    # -- arithmetic -----------------------------------------------------
    def _lift(self, o):
        if isinstance(o, Term):
            return o.z, o.nodes
        return toz(o), 1

    def __add__(s, o):
        if isinstance(o, _np.ndarray):
            return NotImplemented
        if isnum(o) and o == 0:
            return s
        if isinstance(o, Angle) or isinstance(s, Angle):
            return Angle.combine(s, o, 1)
        oz, n = s._lift(o)
        return Term(s.z + oz, s.nodes + n)

    def __radd__(s, o):
        if isinstance(o, _np.ndarray):
            return NotImplemented
        if isnum(o) and o == 0:
            return s
        oz, n = s._lift(o)
        return Term(oz + s.z, s.nodes + n)

    def __sub__(s, o):
        if isinstance(o, _np.ndarray):
            return NotImplemented
        if isnum(o) and o == 0:
            return s
        oz, n = s._lift(o)
        return Term(s.z - oz, s.nodes + n)

    def __rsub__(s, o):
        if isinstance(o, _np.ndarray):
            return NotImplemented
        if isnum(o) and o == 0:
            return -s
        oz, n = s._lift(o)
        return Term(oz - s.z, s.nodes + n)

    def __mul__(s, o):
        if isinstance(o, _np.ndarray):
            return NotImplemented
        if isnum(o):
            if o == 0:
                return 0.0
            if o == 1:
                return s
            if o == -1:
                return -s
        oz, n = s._lift(o)
        return Term(s.z * oz, s.nodes + n)

    def __rmul__(s, o):
        if isinstance(o, _np.ndarray):
            return NotImplemented
        if isnum(o):
            if o == 0:
                return 0.0
            if o == 1:
                return s
            if o == -1:
                return -s
        oz, n = s._lift(o)
        return Term(oz * s.z, s.nodes + n)

    def __neg__(s):
        return Term(-s.z, s.nodes)

    def __pos__(s):
        return s

    def __abs__(s):
        if E.decide(s.z >= 0):
            return s
        return -s

    def __truediv__(s, o):
        if isinstance(o, _np.ndarray):
            return NotImplemented
        if isnum(o):
            if o == 0:
                E.obligation('div', z3.BoolVal(False))
                raise ZeroDivisionError("division of a term by the constant 0")
            if o == 1:
                return s
            return Term(s.z / toz(o), s.nodes + 1)
        return divide(s, o)

    def __rtruediv__(s, o):
        if isinstance(o, _np.ndarray):
            return NotImplemented
        if isnum(o) and o == 0:
            E.obligation('div', s.z != 0)
            return 0.0
        return divide(o, s)

    def __pow__(s, o):
        if isinstance(o, Term):
            c = _const_val(z3.simplify(o.z))
            if c is None:
                raise EngineUnsupported("symbolic exponent")
            o = c
        if isinstance(o, (float, _np.floating)) and float(o).is_integer():
            o = int(o)
        if isinstance(o, Fraction) and o.denominator == 1:
            o = int(o)
        if isinstance(o, (int, _np.integer)):
            o = int(o)
            if o >= 0:
                r = None
                for _ in range(o):
                    r = s.z if r is None else r * s.z
                return Term(r, s.nodes * max(o, 1)) if r is not None else 1.0
            return 1.0 / (s ** (-o))
        if o == 0.5:
            return s.sqrt()
        if o == -0.5:
            return 1.0 / s.sqrt()
        if o == 1.5:
            return s * s.sqrt()
        raise EngineUnsupported(f"power {o!r}")

    def __rpow__(s, o):
        # base ** term : only e ** x is used by the repo
        if isinstance(o, float) and o == math.e:
            return s.exp()
        raise EngineUnsupported(f"{o!r} ** term")

    def __mod__(s, o):
        """x % d for a positive constant d: range reduction by forking on the (few) periods the
        contract's input range allows; outside [-3d, 3d) the function is out of reach"""
        if not isnum(o) or not o > 0:
            raise EngineUnsupported("modulo by a non-constant")
        d = toz(o)
        for k in (0, -1, 1, -2, 2, -3):
            if E.decide(z3.And(s.z >= k * d, s.z < (k + 1) * d)):
                return Term(s.z - k * d, s.nodes + 1) if k else Term(s.z, s.nodes)
        raise EngineUnsupported("modulo: value outside [-3d, 3d)")

    def __floordiv__(s, o):
        raise EngineUnsupported("floor division on a symbolic value")

    # -- comparisons ----------------------------------------------------
    def _cmp(s, o, f):
        if isinstance(o, _np.ndarray):
            return NotImplemented
        if o is None:
            return False
        return BoolT(f(s.z, toz(o)))

    def __lt__(s, o): return s._cmp(o, lambda a, b: a < b)
    def __le__(s, o): return s._cmp(o, lambda a, b: a <= b)
    def __gt__(s, o): return s._cmp(o, lambda a, b: a > b)
    def __ge__(s, o): return s._cmp(o, lambda a, b: a >= b)

    def __eq__(s, o):
        if o is None or isinstance(o, str):
            return False
        return s._cmp(o, lambda a, b: a == b)

    def __ne__(s, o):
        if o is None or isinstance(o, str):
            return True
        return s._cmp(o, lambda a, b: a != b)
    __hash__ = None

    def __bool__(s):
        return E.decide(s.z != 0)

    def __round__(s, n=0):
        E.axioms_used.add('RND')
        return s

    def __float__(s):
        c = _const_val(z3.simplify(s.z))
        if c is not None:
            return float(c)
        raise EngineUnsupported("float() of a symbolic value")

    def __int__(s):
        raise EngineUnsupported("int() of a symbolic value")

    def __index__(s):
        raise EngineUnsupported("symbolic value used as an index")

    def copy(s):
        return s

    def __copy__(s):
        return s

    def __deepcopy__(s, memo):
        return s

    def conjugate(s):
        return s

    conj = conjugate

    @property
    def real(s):
        return s

    @property
    def imag(s):
        return 0.0

    def item(s):
        return s

    def tolist(s):
        return s

    # -- elementary functions (numpy object-array ufunc protocol) -------
    def sqrt(s):
        E.obligation('sqrt', s.z >= 0)
        cut = E.hooks.get('cut_sqrt')
        if cut:
            r = cut(s)
            if r is not None:
                return r
        return fresh_sqrt(s)

    def cos(s): return TRIG.cos(s)
    def sin(s): return TRIG.sin(s)
    def tan(s): return TRIG.sin(s) / TRIG.cos(s)
    def arcsin(s): return TRIG.arcsin(s)
    def arccos(s): return TRIG.arccos(s)
    def arctan(s): return TRIG.arctan2(s, 1.0)
    def arctan2(s, o): return TRIG.arctan2(s, o)
    def exp(s): return XF.exp(s)
    def log(s): return XF.log(s)
    def cbrt(s): return XF.cbrt(s)

    def sign(s):
        if E.decide(s.z > 0):
            return 1.0
        if E.decide(s.z < 0):
            return -1.0
        return 0.0

    def isnan(s): return False
    def isfinite(s): return True
    def isinf(s): return False

    def fabs(s): return abs(s)
    def absolute(s): return abs(s)
    def square(s): return s * s

    def rad2deg(s): return s * (180.0 / math.pi)
    def deg2rad(s): return s * (math.pi / 180.0)


def inverse_of(b):
    """1/b for a non-constant term b as a fresh variable y with y*b == 1 (one per distinct denominator on a
    path).  The safety obligation b != 0 is recorded *before* the definition is added and is proved from
    the hypotheses that precede it only."""
    cv = _const_val(b.z) if z3.is_rational_value(b.z) else None
    if cv is not None:
        if cv == 0:
            E.obligation('div', z3.BoolVal(False))
            raise ZeroDivisionError("division by a term that is the constant 0")
        return float(1 / cv) if (1 / cv).denominator == 1 else Term(_rat(1 / cv))
    E.obligation('div', b.z != 0)
    key = ('inv', b.z.get_id())
    if key in E.labels:
        return E.labels[key][1]
    y = E.fresh('inv')
    E.defs.append(y * b.z == 1)
    t = Term(y)
    E.labels[key] = (b.z, t)
    return t


def divide(a, b):
    """a / b with b a non-constant term: a * inverse_of(b), unless a certified exact quotient is found"""
    if not isinstance(b, Term):
        b = Term(toz(b))
    cut = E.hooks.get('cut_div')
    if cut:
        E.obligation('div', b.z != 0)
        r = cut(a, b)
        if r is not None:
            return r
        E.oblig.pop()          # inverse_of records it again (same position)
    y = inverse_of(b)
    return a * y


def fresh_sqrt(s):
    # one variable per syntactically identical radicand on a path
    key = ('sqrt', s.z.get_id())
    if key in E.labels:
        return E.labels[key][1]
    r = E.fresh('sqrt')
    E.defs += [r >= 0, r * r == s.z]
    t = Term(r)
    E.labels[key] = (s.z, t)     # keeps s.z alive so the id stays unique
    for h in E.hooks.get('new_sqrt', []):
        h(r, s)
    return t


class Angle(Term):
    """placeholder; the real class lives in rvc.trig and is patched in"""
    @staticmethod
    def combine(a, b, sg):
        raise EngineUnsupported("angle arithmetic without rvc.trig")


class _NoTrig:
    def __getattr__(self, k):
        raise EngineUnsupported("trig model not loaded")


TRIG = _NoTrig()
XF = _NoTrig()


def sym(name):
    return Term(z3.Real(name))


def symarr(name, shape):
    shape = (shape,) if isinstance(shape, int) else tuple(shape)
    a = _np.empty(shape, dtype=object)
    for idx in _np.ndindex(*shape):
        a[idx] = sym(name + ''.join(f"_{i}" for i in idx))
    return a


# ------------------------------------------------------------------ exploration
class Path:
    __slots__ = ('taken', 'pc', 'defs', 'assume', 'oblig', 'effects', 'outcome', 'goals', 'observed',
                 'axioms', 'extra', 'frames', 'notes', 'links', 'extra_info')


def explore(run, assume=(), max_paths=4000, on_path=None, prefix=(), deadline=None):
    """run the callable on every feasible path.  `run` is re-executed from scratch for each path."""
    E.assume = list(assume)
    E.reset_all()
    work = [list(prefix)]     # a forced prefix shards the path space (infeasible shards yield no path)
    paths = []
    while work:
        if deadline is not None and time.time() > deadline:
            raise EngineUnsupported('exploration time budget exhausted')
        forced = work.pop()
        E.begin_path(forced)
        E.pending = []
        E.symbolic = True
        outcome = None
        try:
            try:
                outcome = ('ok', run())
            except Infeasible:
                outcome = None
            except (EngineUnsupported, Budget):
                raise
            except Exception as ex:      # an exception raised by the real code is an outcome
                outcome = ('raises', ex)
        finally:
            E.symbolic = False
        work.extend(E.pending)
        if outcome is not None:
            p = Path()
            p.taken = list(E.taken); p.pc = list(E.pc); p.defs = list(E.defs)
            p.assume = list(E.path_assume); p.oblig = list(E.oblig); p.effects = list(E.effects)
            p.outcome = outcome; p.axioms = set(E.axioms_used)
            p.extra = (PI_FACTS if E.used_pi else []) + (EUL_FACTS if E.used_e else [])
            p.goals = []; p.observed = {}; p.frames = []; p.notes = []; p.links = list(E.links)
            if on_path:
                on_path(p)
            paths.append(p)
            if len(paths) > max_paths:
                raise EngineUnsupported(f"more than {max_paths} paths")
    return paths


# ------------------------------------------------------------------ solving
def to_smt2(hyps, neg_goal):
    s = z3.Solver()
    s.add(*hyps)
    s.add(neg_goal)
    return s.to_smt2()


class DictModel:
    """values of the requested expressions in a model found by a (forked) solver process"""
    def __init__(self, values):
        self.values = values

    def get(self, name, default=None):
        return self.values.get(name, default)


def _value_of(m, zexpr):
    v = m.eval(zexpr, model_completion=True)
    if z3.is_rational_value(v):
        return float(Fraction(v.numerator_as_long(), v.denominator_as_long()))
    if z3.is_algebraic_value(v):
        a = v.approx(30)
        return float(Fraction(a.numerator_as_long(), a.denominator_as_long()))
    v = z3.simplify(v)
    if z3.is_rational_value(v):
        return float(Fraction(v.numerator_as_long(), v.denominator_as_long()))
    raise ValueError(f"no numeric value for {zexpr}: {v}")


def hard_check(hyps, extra, timeout_ms, tactic=None, seed=0, evals=None):
    """one solver query in a forked child with a hard wall-clock limit (z3's own timeout is not honoured inside
    long big-number operations of nlsat).  Returns (verdict, DictModel|None)."""
    import select, signal, json
    r, w = os.pipe()
    pid = os.fork()
    if pid == 0:
        try:
            os.close(r)
            s = z3.Tactic(tactic).solver() if tactic else z3.Solver()
            s.set('timeout', int(timeout_ms))
            if not tactic:
                s.set('random_seed', seed)
            s.add(*hyps)
            if extra is not None:
                s.add(extra)
            try:
                v = str(s.check())
            except z3.Z3Exception:
                v = 'unknown'
            out = dict(v=v)
            if v == 'sat' and evals:
                m = s.model()
                vals = {}
                for k, e in evals.items():
                    try:
                        if isinstance(e, list):
                            vals[k] = [_value_of(m, x) for x in e]
                        else:
                            vals[k] = _value_of(m, e)
                    except Exception:
                        vals[k] = None
                out['m'] = vals
            os.write(w, json.dumps(out).encode())
        except BaseException:
            pass
        finally:
            os._exit(0)
    os.close(w)
    buf = b''
    deadline = time.time() + timeout_ms / 1000.0 + 1.5
    try:
        while True:
            left = deadline - time.time()
            if left <= 0:
                break
            rd, _, _ = select.select([r], [], [], left)
            if not rd:
                break
            chunk = os.read(r, 1 << 16)
            if not chunk:
                break
            buf += chunk
    finally:
        os.close(r)
        try:
            os.kill(pid, signal.SIGKILL)
        except ProcessLookupError:
            pass
        os.waitpid(pid, 0)
    if not buf:
        return 'unknown', None
    try:
        out = json.loads(buf.decode())
    except ValueError:
        return 'unknown', None
    return out['v'], (DictModel(out['m']) if 'm' in out else None)


def guarded_check(s, timeout_ms):
    """in-process check (only for tiny queries)"""
    try:
        return s.check()
    except z3.Z3Exception:
        return z3.unknown


def z3_check(hyps, neg_goal, timeout_ms, tactic=None, seed=0, evals=None):
    """returns ('unsat'|'sat'|'unknown', DictModel|None, seconds)"""
    t = time.time()
    v, m = hard_check(hyps, neg_goal, timeout_ms, tactic=tactic, seed=seed, evals=evals)
    return v, m, time.time() - t


def cvc5_check(hyps, neg_goal, timeout_ms):
    """same query through the cvc5 binary (nl-cov); returns (verdict, None, seconds)"""
    import subprocess, tempfile
    t = time.time()
    txt = to_smt2(hyps, neg_goal)
    txt = txt.replace('(set-info :status unknown)', '')
    if '(set-logic' not in txt:
        txt = '(set-logic QF_NRA)\n' + txt
    exe = '/usr/bin/cvc5'
    if not os.path.exists(exe):
        return 'unknown', None, 0.0
    with tempfile.NamedTemporaryFile('w', suffix='.smt2', delete=False, dir=os.environ.get('RVC_TMP', None)) as f:
        f.write(txt)
        fn = f.name
    try:
        p = subprocess.run([exe, '--nl-cov', f'--tlimit={int(timeout_ms)}', fn], capture_output=True, text=True,
                           timeout=timeout_ms / 1000 + 10)
        out = p.stdout.strip().splitlines()
        v = out[0] if out else 'unknown'
        if v not in ('sat', 'unsat'):
            v = 'unknown'
    except Exception:
        v = 'unknown'
    finally:
        os.unlink(fn)
    return v, None, time.time() - t


def model_value(m, zexpr):
    """float value of a z3 real expression in model m (algebraic numbers approximated to 30 digits)"""
    v = m.eval(zexpr, model_completion=True)
    if z3.is_rational_value(v):
        return float(Fraction(v.numerator_as_long(), v.denominator_as_long()))
    if z3.is_algebraic_value(v):
        a = v.approx(30)
        return float(Fraction(a.numerator_as_long(), a.denominator_as_long()))
    v = z3.simplify(v)
    if z3.is_rational_value(v):
        return float(Fraction(v.numerator_as_long(), v.denominator_as_long()))
    raise ValueError(f"no numeric value for {zexpr}: {v}")
