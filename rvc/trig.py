"""rvc.trig -- sound polynomial abstraction of trigonometric and other transcendental functions.

An Angle is a linear combination  sum_i k_i * atom_i  + k_pi * pi  with rational k.
Each atom a owns a pair (c, s) = (cos(a/D), sin(a/D)) with c^2+s^2=1 for the finest
fraction 1/D the run needs.  cos/sin of a combination are *computed* by the addition
theorem, so only the circle constraint (C1), the refinement links (C2), the constants
(P1) and the range<->sign facts (G) are assumed -- all true of the real functions.
Inverse functions return new atoms defined by their characterising constraints (D1-D4).
"""
import math
from fractions import Fraction
import z3
from . import core
from .core import E, Term, BoolT, toz, isnum, EngineUnsupported, PI


class AtomTable:
    def __init__(self):
        self.reset()

    def reset(self):
        self.pairs = {}      # (atom, D) -> (c, s) z3 consts
        self.theta = {}      # atom -> z3 Real value of the angle
        self.keep = []       # keep ASTs alive (ids are used as keys)
        self.expr_atoms = {} # z3 ast id -> atom name
        self.n = 0

    def value(self, atom):
        return self.theta[atom]

    def new_atom(self, base, value=None):
        self.n += 1
        name = f"{base}{self.n}"
        self.theta[name] = value if value is not None else z3.Real(f"th_{name}")
        return name

    def declare(self, name, value=None):
        if name not in self.theta:
            self.theta[name] = value if value is not None else z3.Real(f"th_{name}")
        return name

    def pair(self, atom, D):
        key = (atom, D)
        if key in self.pairs:
            return self.pairs[key]
        c, s = z3.Real(f"c_{atom}_{D}"), z3.Real(f"s_{atom}_{D}")
        self.pairs[key] = (c, s)
        E.axioms_used.add('C1')
        E.axioms_used.add('G')
        E.used_pi = True
        facts = [c * c + s * s == 1]
        # range <-> sign facts (G) for theta/D and for every coarser multiple theta/m, m | D
        for m in range(1, D + 1):
            if D % m:
                continue
            cc, ss = (c, s) if m == D else cpow(c, s, D // m)
            facts += _sign_facts(self.theta[atom] / m, cc, ss)
        E.defs += facts
        for h in E.hooks.get('new_pair', []):
            h(atom, D, c, s)
        # C2: link to coarser / finer pairs of the same atom already present
        for (a2, D2), (c2, s2) in list(self.pairs.items()):
            if a2 != atom or D2 == D:
                continue
            if D % D2 == 0:      # new pair is finer: old = (new)^(D/D2)
                cc, ss = cpow(c, s, D // D2)
                E.defs += [c2 == cc, s2 == ss]
                E.axioms_used.add('C2')
            elif D2 % D == 0:
                cc, ss = cpow(c2, s2, D2 // D)
                E.defs += [c == cc, s == ss]
                E.axioms_used.add('C2')
            else:
                raise EngineUnsupported(f"incommensurable fractions of atom {atom}: {D}, {D2}")
        return c, s


def _sign_facts(th, c, s):
    """facts true of (c, s) = (cos th, sin th): quadrant signs, special values, |sin x| <= |x|, 1 - cos x <= x^2/2"""
    half = PI / 2
    return [
        z3.Implies(z3.And(th > -half, th < half), c > 0),
        z3.Implies(z3.And(th > 0, th < PI), s > 0),
        z3.Implies(z3.And(th > -PI, th < 0), s < 0),
        z3.Implies(th == 0, z3.And(c == 1, s == 0)),
        z3.Implies(z3.And(th > half, th <= PI), c < 0),
        z3.Implies(z3.And(th >= -PI, th < -half), c < 0),
        z3.Implies(th == half, z3.And(c == 0, s == 1)),
        z3.Implies(th == -half, z3.And(c == 0, s == -1)),
        z3.Implies(th == PI, z3.And(c == -1, s == 0)),
        # converse within (-pi, pi]
        z3.Implies(z3.And(th > -PI, th <= PI, c == 1), th == 0),
        z3.Implies(z3.And(th > -PI, th <= PI, s == 0, c < 0), th == PI),
        z3.Implies(z3.And(th > -PI, th <= PI, s > 0), z3.And(th > 0, th < PI)),
        z3.Implies(z3.And(th > -PI, th <= PI, s < 0), z3.And(th > -PI, th < 0)),
        z3.Implies(z3.And(th > -PI, th <= PI, c > 0), z3.And(th > -half, th < half)),
        z3.Implies(z3.And(th > -PI, th <= PI, c < 0), z3.Or(th > half, th < -half)),
        z3.Implies(z3.And(th > -PI, th <= PI, c == 0, s > 0), th == half),
        z3.Implies(z3.And(th > -PI, th <= PI, c == 0, s < 0), th == -half),
        s * s <= th * th, 2 * (1 - c) <= th * th,
    ]


A = AtomTable()
E.hooks.setdefault('begin_path', []).append(A.reset)


def cmul(a, b):
    return (a[0] * b[0] - a[1] * b[1], a[0] * b[1] + a[1] * b[0])


def cpow(c, s, n):
    if n < 0:
        s, n = -s, -n
    r = None
    for _ in range(n):
        r = (c, s) if r is None else cmul(r, (c, s))
    return r if r is not None else (z3.RealVal(1), z3.RealVal(0))


def _fr(v):
    return z3.RealVal(f"{v.numerator}/{v.denominator}")


# exact (cos, sin) of k*pi/D for the fractions of pi the repo's constants produce
def _pi_pair(fr):
    """fr: Fraction multiple of pi -> (cos, sin) as z3 expressions (algebraic constants as fresh defs)"""
    fr = fr % 2
    q = fr.denominator
    if q == 1:
        return (z3.RealVal(1), z3.RealVal(0)) if fr.numerator % 2 == 0 else (z3.RealVal(-1), z3.RealVal(0))
    if q == 2:
        return (z3.RealVal(0), z3.RealVal(1)) if fr.numerator % 4 == 1 else (z3.RealVal(0), z3.RealVal(-1))
    base = {3: ('1/2', 3, '3/4'), 4: (None, 2, '1/2'), 6: (None, 3, '3/4')}
    if q in (3, 4, 6):
        E.axioms_used.add('P1')
        r2 = z3.Real('sqrt1_2'); r3 = z3.Real('sqrt3_4')
        if q == 4:
            E.defs += [r2 > 0, r2 * r2 == z3.RealVal('1/2')]
            unit = (r2, r2)
        elif q == 3:
            E.defs += [r3 > 0, r3 * r3 == z3.RealVal('3/4')]
            unit = (z3.RealVal('1/2'), r3)
        else:
            E.defs += [r3 > 0, r3 * r3 == z3.RealVal('3/4')]
            unit = (r3, z3.RealVal('1/2'))
        return cpow(unit[0], unit[1], fr.numerator)
    raise EngineUnsupported(f"cos/sin of {fr}*pi")


class Angle(Term):
    """Term that is a rational combination of atoms (+ a multiple of pi).
    coefficients: atom -> (Fraction, pi_power) ; pi_power in {-1,0,1} lets degree inputs cancel"""
    __slots__ = ('ang', 'kpi')

    def __init__(self, ang, kpi=Fraction(0)):
        self.ang = {k: v for k, v in ang.items() if v[0] != 0}
        self.kpi = Fraction(kpi)
        z = _fr(self.kpi) * PI if self.kpi != 0 else z3.RealVal(0)
        if self.kpi != 0:
            E.used_pi = True
        for k, (v, p) in self.ang.items():
            t = _fr(v) * A.value(k)
            if p == 1:
                t = t * PI; E.used_pi = True
            elif p == -1:
                t = t / PI; E.used_pi = True
            z = z + t
        Term.__init__(self, z3.simplify(z), 1 + len(self.ang))

    @staticmethod
    def combine(a, b, sg):
        """a + sg*b.  Angle +- Angle (or +- a multiple of pi) stays an Angle; an angle used as a plain number
        (added to a non-angle) degrades to ordinary real arithmetic on its value"""
        def plain(x):
            return Term(x.z, x.nodes) if isinstance(x, Angle) else x
        for x in (a, b):
            if isinstance(x, Angle):
                continue
            if isnum(x):
                if float(x) != 0.0 and core.pi_multiple(float(x)) is None:
                    return plain(a) + plain(b) if sg > 0 else plain(a) - plain(b)
            else:
                return plain(a) + plain(b) if sg > 0 else plain(a) - plain(b)
        a, b = as_angle(a), as_angle(b)
        d = dict(a.ang)
        for k, (v, p) in b.ang.items():
            if k in d:
                if d[k][1] != p:
                    raise EngineUnsupported("mixed pi powers")
                d[k] = (d[k][0] + sg * v, p)
            else:
                d[k] = (sg * v, p)
        return Angle(d, a.kpi + sg * b.kpi)

    def __add__(s, o):
        if isinstance(o, core._np.ndarray): return NotImplemented
        if isnum(o) and o == 0: return s
        return Angle.combine(s, o, 1)
    __radd__ = __add__

    def __sub__(s, o):
        if isinstance(o, core._np.ndarray): return NotImplemented
        if isnum(o) and o == 0: return s
        return Angle.combine(s, o, -1)

    def __rsub__(s, o):
        if isinstance(o, core._np.ndarray): return NotImplemented
        return Angle.combine(o, s, -1)

    def __neg__(s):
        return Angle({k: (-v, p) for k, (v, p) in s.ang.items()}, -s.kpi)

    def _scale(s, o, inv=False):
        if isinstance(o, Term) and not isinstance(o, Angle):
            c = core._const_val(z3.simplify(o.z))
            if c is not None:
                o = c
        if isinstance(o, Term):
            # angle * symbolic factor: a new atom whose value is the product (sums distribute, so that
            # phi*(a+b) = phi*a + phi*b and the addition theorem applies)
            if inv:
                E.obligation('div', o.z != 0)
                return atom_of_expr(s.z / o.z)
            oz = o.z
            if z3.is_add(oz):
                r = None
                for ch in oz.children():
                    part = s._scale(Term(ch))
                    r = part if r is None else Angle.combine(r, part, 1)
                return r
            if z3.is_mul(oz) and oz.num_args() == 2 and z3.is_rational_value(oz.arg(0)):
                return s._scale(Term(oz.arg(1)))._scale(core._const_val(oz.arg(0)))
            return atom_of_expr(s.z * oz)
        if isinstance(o, (int, core._np.integer)):
            f, dp = Fraction(int(o)), 0
        elif isinstance(o, Fraction):
            f, dp = o, 0
        else:
            o = float(o)
            pm = core.pi_multiple(o)
            if pm is not None:
                f, dp = pm, 1
            else:
                pm = core.pi_multiple(1.0 / o) if o != 0 else None
                if pm is not None:
                    f, dp = 1 / pm, -1
                else:
                    f, dp = core.float_fraction(o), 0
        if inv:
            f, dp = 1 / f, -dp
        if any((v * f).denominator > 64 or abs((v * f).numerator) > 4096 for (v, p) in s.ang.values()) or \
                (s.kpi * f).denominator > 64:
            # not a "nice" multiple: treat the product as an angle expression of its own
            val = s.z * toz(f)
            if dp == 1:
                val = val * PI
            elif dp == -1:
                val = val / PI
            return atom_of_expr(val)
        d = {}
        for k, (v, p) in s.ang.items():
            if abs(p + dp) > 1:
                raise EngineUnsupported("pi power out of range")
            d[k] = (v * f, p + dp)
        if s.kpi != 0 and dp != 0:
            if dp == -1:
                # (k*pi) * (f/pi) = k*f : a plain number, no longer an angle
                raise EngineUnsupported("pi constant scaled by 1/pi")
            raise EngineUnsupported("pi^2")
        return Angle(d, s.kpi * f)

    def __mul__(s, o):
        if isinstance(o, core._np.ndarray): return NotImplemented
        if isnum(o) and o == 0: return 0.0
        return s._scale(o)
    __rmul__ = __mul__

    def __truediv__(s, o):
        if isinstance(o, core._np.ndarray): return NotImplemented
        return s._scale(o, inv=True)

    def cs(self):
        """(cos, sin) as z3 expressions by the addition theorem"""
        r = _pi_pair(self.kpi) if self.kpi != 0 else (z3.RealVal(1), z3.RealVal(0))
        first = self.kpi == 0
        for k, (v, p) in self.ang.items():
            if p != 0:
                raise EngineUnsupported("cos/sin of an angle with a dangling pi factor (unit mix-up?)")
            D = v.denominator
            # reuse a finer existing pair if there is one
            for (a2, D2) in list(A.pairs):
                if a2 == k and D2 % D == 0 and D2 > D:
                    D = D2
            c, s = A.pair(k, D)
            t = cpow(c, s, int(v * D))
            r = t if first else cmul(r, t)
            first = False
        return r

    def cos(self):
        return Term(z3.simplify(self.cs()[0]), 4)

    def sin(self):
        return Term(z3.simplify(self.cs()[1]), 4)

    def __repr__(self):
        return f"<angle {self.ang} +{self.kpi}pi>"

    def __mod__(s, o):
        return Term(s.z, s.nodes).__mod__(o)


def atom_of_expr(z):
    """atom for an arbitrary real expression used as an angle (keyed structurally)"""
    z = z3.simplify(z)
    key = z.get_id()
    if key in A.expr_atoms:
        name = A.expr_atoms[key]
    else:
        name = A.new_atom('e', value=z)
        A.expr_atoms[key] = name
        A.keep.append(z)
    return Angle({name: (Fraction(1), 0)})


def as_angle(t):
    if isinstance(t, Angle):
        return t
    if isnum(t):
        t = float(t)
        if t == 0.0:
            return Angle({}, 0)
        pm = core.pi_multiple(t)
        if pm is None:
            raise EngineUnsupported(f"constant angle {t} that is not a multiple of pi")
        return Angle({}, pm)
    if isinstance(t, Term):
        return _angle_of_expr(z3.simplify(t.z, som=True))
    raise EngineUnsupported(f"angle from {type(t)}")


def _linear_in_angles(z):
    """z == sum k_i * th_i (+ k*pi) over the values of known atoms -> that Angle, else None"""
    by_id = {v.get_id(): k for k, v in A.theta.items() if z3.is_const(v)}
    if not by_id:
        return None
    terms = list(z.children()) if z3.is_add(z) else [z]
    ang, kpi = {}, Fraction(0)
    for t in terms:
        coef, var = Fraction(1), t
        if z3.is_mul(t) and t.num_args() == 2 and z3.is_rational_value(t.arg(0)):
            coef, var = core._const_val(t.arg(0)), t.arg(1)
        if var.get_id() in by_id:
            k = by_id[var.get_id()]
            ang[k] = (ang.get(k, (Fraction(0), 0))[0] + coef, 0)
        elif var.get_id() == PI.get_id():
            kpi += coef
        else:
            return None
    if any(v[0].denominator > 64 or abs(v[0].numerator) > 64 for v in ang.values()):
        return None
    return Angle(ang, kpi)


def _angle_of_expr(z):
    """canonical decomposition of a real expression used as an angle: sums split, rational factors pulled
    out, known angle values and pi recognised; what remains becomes an expression atom"""
    lin = _linear_in_angles(z)
    if lin is not None:
        return lin
    cv = core._const_val(z)
    if cv is not None:
        if cv == 0:
            return Angle({}, 0)
        raise EngineUnsupported(f"constant angle {cv}")
    if z3.is_add(z):
        r = None
        for ch in z.children():
            part = _angle_of_expr(ch)
            r = part if r is None else Angle.combine(r, part, 1)
        return r
    if z3.is_mul(z) and z3.is_rational_value(z.arg(0)):
        coef = core._const_val(z.arg(0))
        rest = z.arg(1) if z.num_args() == 2 else z3.simplify(z3.Product(*z.children()[1:]))
        if coef.denominator <= 64 and abs(coef.numerator) <= 64:
            return _angle_of_expr(rest) * coef
    return atom_of_expr(z)


def angle_input(name, D=1):
    """declare a named input angle atom"""
    A.declare(name)
    return Angle({name: (Fraction(1), 0)})


class Trig:
    def cos(self, x):
        return as_angle(x).cos()

    def sin(self, x):
        return as_angle(x).sin()

    def _cached(self, kind, *args):
        # keyed on the normalised argument, so arccos(-(p.(-q))) and arccos(p.q) are the same atom
        norm = [z3.simplify(a, som=True) for a in args]
        key = (kind,) + tuple(a.get_id() for a in norm)
        hit = E.labels.get(key)
        if hit is None:
            A.keep.extend(norm)       # the normalised ASTs must stay alive: their ids are the cache key
        return key, (hit[1] if hit else None)

    def arctan2(self, Y, X):
        Yz, Xz = toz(Y), toz(X)
        if E.decide(z3.And(Yz == 0, Xz == 0)):
            E.axioms_used.add('D1-zero')
            return core._np.float64(0.0)      # numpy returns a float64 scalar (it has .copy() etc.)
        key, hit = self._cached('atan2', Yz, Xz)
        if hit is not None:
            return hit
        r = self._arctan2(Yz, Xz)
        E.labels[key] = ((Yz, Xz), r)
        return r

    def _arctan2(self, Yz, Xz):
        name = A.new_atom('atan')
        phi = A.value(name)
        c, s = A.pair(name, 1)
        E.used_pi = True
        E.axioms_used.add('D1')
        # k = sqrt(X^2+Y^2) > 0, cos = X/k, sin = Y/k -- through the certified sqrt / exact-division cuts, so that
        # e.g. arctan2(sin a cos b, cos a cos b) becomes the pair (cos a, sin a) when cos b > 0
        kT = Term(Xz * Xz + Yz * Yz, 8).sqrt()
        if isnum(kT):
            cT, sT = Term(Xz) / kT if False else Term(Xz) * (1.0 / kT), Term(Yz) * (1.0 / kT)
        else:
            E.defs.append(kT.z > 0)          # (X, Y) != (0, 0) on this path (decided above)
            cT, sT = core.divide(Term(Xz), kT), core.divide(Term(Yz), kT)
        E.defs += [c == toz(cT), s == toz(sT), phi > -PI, phi <= PI]
        if z3.is_rational_value(Xz) and core._const_val(Xz) == 1:
            # arctan(y): AT1  y > 0  ==>  3y/(3+y^2) < arctan y < y   (and the mirror image for y < 0)
            E.axioms_used.add('AT1')
            E.defs += [z3.Implies(Yz > 0, z3.And(phi * (3 + Yz * Yz) > 3 * Yz, phi < Yz)),
                       z3.Implies(Yz < 0, z3.And(phi * (3 + Yz * Yz) < 3 * Yz, phi > Yz)),
                       z3.Implies(Yz == 0, phi == 0)]
        return Angle({name: (Fraction(1), 0)})

    def arcsin(self, x):
        xz = toz(x)
        E.obligation('arcsin', z3.And(xz >= -1, xz <= 1))
        key, hit = self._cached('asin', xz)
        if hit is not None:
            return hit
        r = self._arcsin(xz)
        E.labels[key] = ((xz,), r)
        return r

    def _arcsin(self, xz):
        name = A.new_atom('asin')
        phi = A.value(name)
        c, s = A.pair(name, 1)
        E.used_pi = True
        E.axioms_used.add('D2')
        E.defs += [s == xz, c >= 0, phi >= -PI / 2, phi <= PI / 2]
        return Angle({name: (Fraction(1), 0)})

    def arccos(self, x):
        xz = toz(x)
        E.obligation('arccos', z3.And(xz >= -1, xz <= 1))
        key, hit = self._cached('acos', xz)
        if hit is not None:
            return hit
        r = self._arccos(xz)
        E.labels[key] = ((xz,), r)
        return r

    def _arccos(self, xz):
        name = A.new_atom('acos')
        phi = A.value(name)
        c, s = A.pair(name, 1)
        E.used_pi = True
        E.axioms_used.add('D3')
        E.defs += [c == xz, s >= 0, phi >= 0, phi <= PI]
        return Angle({name: (Fraction(1), 0)})


class XFuncs:
    """exp / log / cbrt : uninterpreted with instantiated laws X1, X2"""
    fexp = z3.Function('exp', z3.RealSort(), z3.RealSort())
    flog = z3.Function('log', z3.RealSort(), z3.RealSort())

    def exp(self, x):
        xz = z3.simplify(toz(x))
        if z3.is_rational_value(xz) and core._const_val(xz) == 0:
            return 1.0
        r = self.fexp(xz)
        E.axioms_used.add('X1')
        E.defs += [r > 0]
        # exp(log(y)) = y
        if z3.is_app(xz) and xz.decl().eq(self.flog):
            E.defs += [r == xz.arg(0)]
        return Term(r, 2)

    def log(self, x):
        xz = z3.simplify(toz(x))
        E.obligation('log', xz > 0)
        if z3.is_rational_value(xz) and core._const_val(xz) == 1:
            return 0.0
        r = self.flog(xz)
        E.axioms_used.add('X1')
        E.defs += [z3.Implies(xz == 1, r == 0), z3.Implies(xz > 1, r > 0), z3.Implies(z3.And(xz > 0, xz < 1), r < 0)]
        if z3.is_app(xz) and xz.decl().eq(self.fexp):
            E.defs += [r == xz.arg(0)]
        return Term(r, 2)

    def cbrt(self, x):
        xz = toz(x)
        r = E.fresh('cbrt')
        E.axioms_used.add('X2')
        E.defs += [r * r * r == xz]
        return Term(r)


core.Angle = Angle
core.TRIG = Trig()
core.XF = XFuncs()
