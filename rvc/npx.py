"""rvc.npx -- the `np` object the instrumented ahrs modules see.

Concrete mode: pure pass-through to NumPy.  Symbolic mode: array creation yields
object arrays; the functions in MODELLED get a real-arithmetic meaning; everything
else is NumPy itself acting on object arrays (broadcasting, views, in-place ops...).
"""
import math
import numpy as _np
import z3
from . import core
from .core import E, Term, BoolT, toz, isnum, is_sym, EngineUnsupported


def _isobj(x):
    return isinstance(x, _np.ndarray) and x.dtype == object


def _symbolic():
    return E.symbolic


def _obj(a):
    a = _np.asarray(a)
    if a.dtype == object:
        return a
    if a.dtype.kind in 'fiub':
        return a.astype(object)
    return a


def _emap(f, fnum, x):
    """apply f to symbolic elements, fnum to numbers; scalars or arrays"""
    if isinstance(x, (Term, BoolT)):
        return f(x)
    if isinstance(x, (list, tuple)):
        x = _np.array(x, dtype=object) if is_sym(x) else _np.asarray(x)
    if isinstance(x, _np.ndarray):
        if x.dtype != object:
            r = fnum(x)
            return _obj(r) if E.symbolic and isinstance(r, _np.ndarray) else r
        out = _np.empty(x.shape, dtype=object)
        for idx in _np.ndindex(*x.shape):
            e = x[idx]
            out[idx] = f(e) if isinstance(e, (Term, BoolT)) else _pyfloat(fnum(e))
        return out
    return fnum(x)


def _pyfloat(v):
    if isinstance(v, (_np.floating,)):
        return float(v)
    if isinstance(v, (_np.integer,)):
        return int(v)
    if isinstance(v, _np.bool_):
        return bool(v)
    return v


def _emap2(f, fnum, a, b):
    if not (is_sym(a) or is_sym(b)):
        r = fnum(a, b)
        return _obj(r) if E.symbolic and isinstance(r, _np.ndarray) and r.dtype.kind == 'f' else r
    if not isinstance(a, _np.ndarray) and not isinstance(b, _np.ndarray) and not isinstance(a, (list, tuple)) and not isinstance(b, (list, tuple)):
        return f(a, b)
    A_, B_ = _np.broadcast_arrays(_np.asarray(a, dtype=object), _np.asarray(b, dtype=object))
    out = _np.empty(A_.shape, dtype=object)
    for idx in _np.ndindex(*A_.shape):
        x, y = A_[idx], B_[idx]
        if isinstance(x, (Term, BoolT)) or isinstance(y, (Term, BoolT)):
            out[idx] = f(x, y)
        else:
            out[idx] = _pyfloat(fnum(x, y))
    return out


class DTypeEq:
    """np.dtype(...) in symbolic mode: equal to the object dtype too (the int/float distinction is dropped)"""
    def __init__(self, dt):
        self.dt = _np.dtype(dt)

    def __eq__(self, o):
        if isinstance(o, DTypeEq):
            o = o.dt
        try:
            od = _np.dtype(o)
        except TypeError:
            return False
        return od == self.dt or (od == object and self.dt.kind in 'fi')
    __hash__ = None

    def __getattr__(self, k):
        return getattr(self.dt, k)


def _absz(t):
    return z3.If(t >= 0, t, -t)


class _Linalg:
    LinAlgError = _np.linalg.LinAlgError

    def __getattr__(self, k):
        return getattr(_np.linalg, k)

    def norm(self, x, ord=None, axis=None, keepdims=False):
        if isinstance(x, Term):
            return abs(x)
        if not is_sym(x):
            return _np.linalg.norm(_asfloat(x), ord=ord, axis=axis, keepdims=keepdims)
        x = _np.asarray(x, dtype=object)
        if ord not in (None, 2, 'fro'):
            raise EngineUnsupported(f"norm ord={ord}")
        if ord == 2 and x.ndim == 2 and axis is None:
            raise EngineUnsupported("spectral norm")
        if keepdims:
            raise EngineUnsupported("norm keepdims")
        if axis is None:
            v = x.ravel()
            return _sqrt1(_sumsq(v))
        if isinstance(axis, tuple):
            raise EngineUnsupported("norm over several axes")
        xm = _np.moveaxis(x, axis, -1)
        out = _np.empty(xm.shape[:-1], dtype=object)
        for idx in _np.ndindex(*out.shape):
            out[idx] = _sqrt1(_sumsq(xm[idx]))
        return out

    def det(self, M):
        if not is_sym(M):
            return _np.linalg.det(_asfloat(M))
        M = _np.asarray(M, dtype=object)
        if M.ndim == 3:
            return _np.array([self.det(m) for m in M], dtype=object)
        return _det(M)

    def inv(self, M):
        if not is_sym(M):
            r = _np.linalg.inv(_asfloat(M))
            return _obj(r) if E.symbolic else r
        M = _np.asarray(M, dtype=object)
        n = M.shape[0]
        if M.ndim != 2 or n != M.shape[1] or n > 4:
            raise EngineUnsupported(f"inv of shape {M.shape}")
        d = _det(M)
        E.obligation('inv', toz(d) != 0)
        out = _np.empty((n, n), dtype=object)
        for i in range(n):
            for j in range(n):
                minor = _np.delete(_np.delete(M, j, axis=0), i, axis=1)
                c = _det(minor) if n > 1 else 1.0
                out[i, j] = ((-1) ** (i + j)) * c / d
        return out

    def solve(self, Amat, b):
        if not (is_sym(Amat) or is_sym(b)):
            r = _np.linalg.solve(_asfloat(Amat), _asfloat(b))
            return _obj(r) if E.symbolic else r
        return self.inv(Amat) @ _np.asarray(b, dtype=object)

    def eig(self, K):
        if not is_sym(K):
            w, v = _np.linalg.eig(_asfloat(K))
            if E.symbolic:
                if _np.iscomplexobj(w) and not _np.allclose(_np.imag(w), 0):
                    raise EngineUnsupported("complex eigenvalues of a concrete matrix")
                return _obj(_np.real(w)), _obj(_np.real(v))
            return w, v
        K = _np.asarray(K, dtype=object)
        n = K.shape[0]
        # assumed dependency contract E1/E2: requires a symmetric matrix
        for i in range(n):
            for j in range(i + 1, n):
                E.obligation('eig-symmetric', toz(K[i, j]) == toz(K[j, i]))
        E.axioms_used.add('E1')
        E.axioms_used.add('E2')
        E.nfresh += 1
        tag = E.nfresh
        lam = _np.array([Term(z3.Real(f"eigval!{tag}_{i}")) for i in range(n)], dtype=object)
        V = _np.empty((n, n), dtype=object)
        for i in range(n):
            for j in range(n):
                V[i, j] = Term(z3.Real(f"eigvec!{tag}_{i}_{j}"))
        for j in range(n):
            col = V[:, j]
            Kv = K @ col
            for i in range(n):
                E.defs.append(toz(Kv[i]) == toz(lam[j] * col[i]))
            for k in range(j, n):
                d = sum(V[i, j] * V[i, k] for i in range(n))
                E.defs.append(toz(d) == (1 if k == j else 0))
        for i in range(n):
            for k in range(i, n):
                d = sum(V[i, j] * V[k, j] for j in range(n))
                E.defs.append(toz(d) == (1 if k == i else 0))
        for h in E.hooks.get('eig', []):
            h(K, lam, V)
        return lam, V

    def cholesky(self, Amat):
        if not is_sym(Amat):
            r = _np.linalg.cholesky(_asfloat(Amat))
            return _obj(r) if E.symbolic else r
        Amat = _np.asarray(Amat, dtype=object)
        n = Amat.shape[0]
        E.axioms_used.add('CH1')
        E.nfresh += 1
        tag = E.nfresh
        L = _np.zeros((n, n)).astype(object)
        for i in range(n):
            for j in range(i + 1):
                L[i, j] = Term(z3.Real(f"chol!{tag}_{i}_{j}"))
            E.defs.append(toz(L[i, i]) > 0)
        LLt = L @ L.T
        for i in range(n):
            for j in range(i + 1):
                E.defs.append(toz(LLt[i, j]) == toz(Amat[i, j]))
        E.effects.append(('ASSUME', 'cholesky input symmetric positive definite'))
        return L

    def matrix_power(self, M, n):
        if not is_sym(M):
            return _np.linalg.matrix_power(M, n)
        M = _np.asarray(M, dtype=object)
        r = _np.identity(M.shape[0]).astype(object)
        for _ in range(int(n)):
            r = r @ M
        return r


def _asfloat(x):
    if isinstance(x, _np.ndarray) and x.dtype == object:
        return x.astype(float)
    if isinstance(x, (list, tuple)):
        return _np.asarray(x, dtype=float)
    return x


def _sumsq(v):
    s = 0.0
    for e in v:
        s = s + e * e
    return s


def _sqrt1(s):
    if isinstance(s, Term):
        return s.sqrt()
    return math.sqrt(s)


def _det(M):
    n = M.shape[0]
    if n == 1:
        return M[0, 0]
    if n == 2:
        return M[0, 0] * M[1, 1] - M[0, 1] * M[1, 0]
    if n == 3:
        return (M[0, 0] * (M[1, 1] * M[2, 2] - M[1, 2] * M[2, 1])
                - M[0, 1] * (M[1, 0] * M[2, 2] - M[1, 2] * M[2, 0])
                + M[0, 2] * (M[1, 0] * M[2, 1] - M[1, 1] * M[2, 0]))
    if n <= 6:
        s = 0.0
        for j in range(n):
            if isnum(M[0, j]) and M[0, j] == 0:
                continue
            minor = _np.delete(_np.delete(M, 0, axis=0), j, axis=1)
            s = s + ((-1) ** j) * M[0, j] * _det(minor)
        return s
    raise EngineUnsupported(f"det of {n}x{n}")


class _Random:
    """random draws: fresh unconstrained symbols in the documented range + an RNG effect"""
    def __getattr__(self, k):
        if E.symbolic:
            raise EngineUnsupported(f"np.random.{k}")
        return getattr(_np.random, k)

    def _draw(self, kind, shape, lo=None, hi=None):
        E.effects.append(('RNG', kind))
        if shape is None or shape == ():
            return self._one(kind, lo, hi)
        shape = (shape,) if isinstance(shape, int) else tuple(shape)
        out = _np.empty(shape, dtype=object)
        for idx in _np.ndindex(*shape):
            out[idx] = self._one(kind, lo, hi)
        return out

    def _one(self, kind, lo, hi):
        v = E.fresh('rng_' + kind)
        if lo is not None:
            E.defs.append(v >= toz(lo))
        if hi is not None:
            E.defs.append(v < toz(hi))
        return Term(v)

    def random(self, size=None):
        if not E.symbolic:
            return _np.random.random(size)
        return self._draw('random', size, 0.0, 1.0)

    def randn(self, *shape):
        if not E.symbolic:
            return _np.random.randn(*shape)
        return self._draw('randn', shape if shape else None)

    def standard_normal(self, size=None):
        if not E.symbolic:
            return _np.random.standard_normal(size)
        return self._draw('normal', size)

    def uniform(self, low=0.0, high=1.0, size=None):
        if not E.symbolic:
            return _np.random.uniform(low, high, size)
        return self._draw('uniform', size, low, high)

    def default_rng(self, *a, **k):
        if not E.symbolic:
            return _np.random.default_rng(*a, **k)
        return _Gen(self)


class _Gen:
    def __init__(self, r):
        self.r = r

    def uniform(self, low=0.0, high=1.0, size=None):
        return self.r._draw('uniform', size, low, high)

    def random(self, size=None):
        return self.r._draw('random', size, 0.0, 1.0)

    def standard_normal(self, size=None):
        return self.r._draw('normal', size)

    def __getattr__(self, k):
        raise EngineUnsupported(f"Generator.{k}")


class NpProxy:
    linalg = _Linalg()
    random = _Random()

    def __getattr__(self, k):
        return getattr(_np, k)

    # ---------------------------------------------------------- creation
    def zeros(self, shape, dtype=float, **k):
        r = _np.zeros(shape, dtype=dtype, **k)
        return _obj(r) if E.symbolic else r

    def ones(self, shape, dtype=None, **k):
        r = _np.ones(shape, dtype=dtype, **k)
        return _obj(r) if E.symbolic else r

    def empty(self, shape, dtype=float, **k):
        r = _np.zeros(shape, dtype=dtype)
        return _obj(r) if E.symbolic else r

    def identity(self, n, dtype=None):
        r = _np.identity(n, dtype=dtype)
        return _obj(r) if E.symbolic else r

    def eye(self, *a, **k):
        r = _np.eye(*a, **k)
        return _obj(r) if E.symbolic else r

    def zeros_like(self, a, dtype=None, **k):
        if E.symbolic:
            return _obj(_np.zeros(_np.shape(a)))
        return _np.zeros_like(a, dtype=dtype, **k)

    def ones_like(self, a, dtype=None, **k):
        if E.symbolic:
            return _obj(_np.ones(_np.shape(a)))
        return _np.ones_like(a, dtype=dtype, **k)

    def array(self, a, dtype=None, copy=True, **k):
        dt = _unmark(dtype)
        if not E.symbolic:
            return _np.array(a, dtype=dt, copy=copy, **k)
        k.pop('subok', None)
        if not is_sym(a):
            r = _np.array(a, dtype=dt, **k)      # numpy's own semantics (and errors) on plain data
            if r.dtype.kind == 'f':
                return r.astype(object)
            return r
        return _np.array(a, dtype=object, **k)

    def asarray(self, a, dtype=None, **k):
        if E.symbolic:
            if isinstance(a, _np.ndarray) and a.dtype == object:
                return a
            return self.array(a, dtype=dtype)
        return _np.asarray(a, dtype=dtype, **k)

    def copy(self, a, **k):
        if E.symbolic:
            if isinstance(a, _np.ndarray):
                r = _np.array(a, copy=True, subok=False)
                return _obj(r) if r.dtype.kind in 'fiu' else r
            if isinstance(a, (list, tuple)):
                return self.array(a)
            return a
        return _np.copy(a, **k)

    def tile(self, a, reps):
        r = _np.tile(a, reps)
        return _obj(r) if E.symbolic and r.dtype.kind == 'f' else r

    def linspace(self, *a, **k):
        r = _np.linspace(*a, **k)
        return _obj(r) if E.symbolic else r

    def atleast_2d(self, *a):
        return _np.atleast_2d(*a)

    def dtype(self, d):
        if E.symbolic:
            return DTypeEq(_unmark(d))
        return _np.dtype(_unmark(d))

    @property
    def e(self):
        return math.e

    # ---------------------------------------------------------- elementary functions
    def sqrt(self, x):
        return _emap(lambda t: t.sqrt(), _np.sqrt, x)

    def cos(self, x):
        return _emap(lambda t: t.cos(), _np.cos, x)

    def sin(self, x):
        return _emap(lambda t: t.sin(), _np.sin, x)

    def tan(self, x):
        return _emap(lambda t: t.tan(), _np.tan, x)

    def arcsin(self, x):
        return _emap(lambda t: t.arcsin(), _np.arcsin, x)

    def arccos(self, x):
        return _emap(lambda t: t.arccos(), _np.arccos, x)

    def arctan(self, x):
        return _emap(lambda t: t.arctan(), _np.arctan, x)

    def arctan2(self, a, b):
        def f(x, y):
            if not isinstance(x, Term):
                x = Term(toz(x))
            return x.arctan2(y)
        return _emap2(f, _np.arctan2, a, b)

    def exp(self, x):
        return _emap(lambda t: t.exp(), _np.exp, x)

    def log(self, x):
        return _emap(lambda t: t.log(), _np.log, x)

    def cbrt(self, x):
        return _emap(lambda t: t.cbrt(), _np.cbrt, x)

    def abs(self, x):
        return _emap(lambda t: abs(t), _np.abs, x)
    absolute = abs
    fabs = abs

    def sign(self, x):
        return _emap(lambda t: t.sign(), _np.sign, x)

    def square(self, x):
        return x * x

    def clip(self, x, lo, hi):
        def f(t):
            if lo is not None and E.decide(t.z < toz(lo)):
                return lo
            if hi is not None and E.decide(t.z > toz(hi)):
                return hi
            return t
        return _emap(f, lambda v: _np.clip(v, lo, hi), x)

    def minimum(self, a, b):
        def f(x, y):
            return x if E.decide(toz(x) <= toz(y)) else y
        return _emap2(f, _np.minimum, a, b)

    def maximum(self, a, b):
        def f(x, y):
            return x if E.decide(toz(x) >= toz(y)) else y
        return _emap2(f, _np.maximum, a, b)

    def isnan(self, x):
        return _emap(lambda t: False, _np.isnan, x) if is_sym(x) else _np.isnan(_asfloat_ifnum(x))

    def isfinite(self, x):
        return _emap(lambda t: True, _np.isfinite, x) if is_sym(x) else _np.isfinite(_asfloat_ifnum(x))

    def isclose(self, a, b, rtol=1e-05, atol=1e-08, equal_nan=False):
        def f(x, y):
            # exact equality implies closeness: try that first (an equality query is far easier for the
            # solver than a two-sided tolerance over rational functions); sound, no fork needed
            if _proved_equal([(x, y)]):
                return True
            return _close_term(x, y, rtol, atol)
        if not (is_sym(a) or is_sym(b)):
            return _np.isclose(_asfloat_ifnum(a), _asfloat_ifnum(b), rtol=rtol, atol=atol, equal_nan=equal_nan)
        return _emap2(f, lambda x, y: bool(_np.isclose(x, y, rtol=rtol, atol=atol)), a, b)

    def allclose(self, a, b, rtol=1e-05, atol=1e-08, equal_nan=False):
        if not (is_sym(a) or is_sym(b)):
            return _np.allclose(_asfloat_ifnum(a), _asfloat_ifnum(b), rtol=rtol, atol=atol)
        A_, B_ = _np.broadcast_arrays(_np.asarray(a, dtype=object), _np.asarray(b, dtype=object))
        pairs = [(x, y) for x, y in zip(A_.ravel(), B_.ravel())]
        sym_pairs = []
        for x, y in pairs:
            if isinstance(x, Term) or isinstance(y, Term):
                sym_pairs.append((x, y))
            elif not _np.isclose(float(x), float(y), rtol=rtol, atol=atol):
                return False
        if not sym_pairs or _proved_equal(sym_pairs):
            return True
        conj = [_close_term(x, y, rtol, atol).z for x, y in sym_pairs]
        return bool(BoolT(z3.And(*conj)))

    def where(self, cond, *args):
        return _np.where(cond, *args)

    def sum(self, a, axis=None, **k):
        if _isobj(a) or is_sym(a):
            a = _np.asarray(a, dtype=object)
            return a.sum(axis=axis)
        return _np.sum(a, axis=axis, **k)

    def nansum(self, a, axis=None, **k):
        if _isobj(a):
            return _nanreduce(a, axis, mean=False)
        return _np.nansum(a, axis=axis, **k)

    def nanmean(self, a, axis=None, **k):
        if _isobj(a):
            return _nanreduce(a, axis, mean=True)
        return _np.nanmean(a, axis=axis, **k)

    def mean(self, a, axis=None, **k):
        if _isobj(a):
            n = a.size if axis is None else a.shape[axis]
            return a.sum(axis=axis) / n
        return _np.mean(a, axis=axis, **k)

    def ptp(self, a, axis=None):
        if _isobj(a) and is_sym(a):
            if axis is not None:
                raise EngineUnsupported("ptp with an axis on symbolic data")
            # peak-to-peak as a fresh value r with r >= x_i - x_j for all i, j (a sound over-approximation of
            # max - min: every real value of ptp satisfies these constraints)
            r = E.fresh('ptp')
            flat = [toz(x) for x in a.ravel()]
            E.defs.append(r >= 0)
            for i, x in enumerate(flat):
                for j, y in enumerate(flat):
                    if i != j:
                        E.defs.append(r >= x - y)
            E.axioms_used.add('PTP(over-approximation)')
            return Term(r)
        return _np.ptp(_asfloat_ifnum(a), axis=axis)

    def sort(self, a, *args, **k):
        if is_sym(a):
            raise EngineUnsupported("sort of symbolic data")
        return _np.sort(a, *args, **k)

    def correlate(self, *a, **k):
        if any(is_sym(x) for x in a):
            raise EngineUnsupported("correlate of symbolic data")
        return _np.correlate(*a, **k)

    def cumsum(self, a, axis=None, **k):
        if _isobj(a):
            return _np.cumsum(a, axis=axis)
        return _np.cumsum(a, axis=axis, **k)

    def genfromtxt(self, *a, **k):
        return _np.genfromtxt(*a, **k)

    class _Emath:
        def sqrt(self, x):
            if is_sym(x):
                raise EngineUnsupported("emath.sqrt (complex-valued) of a symbolic value")
            return _np.emath.sqrt(x)

        def __getattr__(self, k):
            return getattr(_np.emath, k)
    emath = _Emath()


def _close_term(x, y, rtol, atol):
    """|x - y| <= atol + rtol*|y| without If-terms: |y| is a number, or the sign of y is forked on"""
    if isnum(y):
        tol = toz(atol + rtol * abs(float(y)))
    else:
        tol = toz(atol) + toz(rtol) * abs_var(toz(y))
    d = toz(x) - toz(y)
    return BoolT(z3.And(d <= tol, -d <= tol))


def abs_var(yz):
    """|y| as a fresh variable a with a >= 0, a*a == y*y (exact, polynomial, no fork and no If-term)"""
    key = ('abs', yz.get_id())
    if key in E.labels:
        return E.labels[key][1]
    a = E.fresh('abs')
    E.defs += [a >= 0, a * a == yz * yz]
    E.labels[key] = (yz, a)
    return a


def _proved_equal(pairs, timeout_ms=3000):
    """True when the path hypotheses prove x == y for every pair (False = not known).  z3 first; when z3 neither proves
    nor refutes within its budget, the ideal-membership certificate is tried (it is insensitive to solver heuristics)"""
    goal = z3.And(*[toz(x) == toz(y) for x, y in pairs])
    gs = z3.simplify(goal)
    if z3.is_true(gs):
        return True
    if z3.is_false(gs):
        return False
    hy = E.hyps()
    v, m, t = core.z3_check(hy, z3.Not(goal), timeout_ms)
    E.stats['eq_lifts'] = E.stats.get('eq_lifts', 0) + 1
    if v == 'unsat':
        return True
    if v == 'sat':
        return False
    from . import cas
    ok, info = cas.cert_prove(hy, goal, budget_s=12.0)
    return bool(ok)


def _asfloat_ifnum(x):
    if isinstance(x, _np.ndarray) and x.dtype == object:
        try:
            return x.astype(float)
        except (TypeError, ValueError):
            return x
    return x


def _nanreduce(a, axis, mean):
    def red(v):
        vals = [e for e in v if not (isinstance(e, float) and math.isnan(e))]
        s = 0.0
        for e in vals:
            s = s + e
        if mean:
            return s / len(vals) if vals else float('nan')
        return s
    if axis is None:
        return red(a.ravel())
    am = _np.moveaxis(a, axis, -1)
    out = _np.empty(am.shape[:-1], dtype=object)
    for idx in _np.ndindex(*out.shape):
        out[idx] = red(am[idx])
    return out


# ---- the `float` builtin as seen by instrumented code ---------------------------------
class _VFMeta(type):
    def __instancecheck__(cls, x):
        return isinstance(x, (float, Term))


class vf_float(metaclass=_VFMeta):
    """stands in for the builtin `float` in symbolic mode: numpy maps it to dtype=object,
    calling it is the identity on terms"""
    def __new__(cls, x=0.0):
        if isinstance(x, Term):
            return x
        return float(x)


def core_float_marker():
    return vf_float


def _unmark(d):
    return float if d is vf_float else d


def vf_float_sel():
    return vf_float if E.symbolic else float


def vf_isinstance(x, t):
    ts = t if isinstance(t, tuple) else (t,)
    ts = tuple(float if c is vf_float else c for c in ts)
    if isinstance(x, Term):
        return float in ts or Term in ts
    if isinstance(x, BoolT):
        return bool in ts or BoolT in ts
    return isinstance(x, ts)


np_proxy = NpProxy()
