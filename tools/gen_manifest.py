#!/usr/bin/env python3
"""regenerate MANIFEST.json from tools/manifest_src.json (level texts) + the lock file"""
import json, os
HERE = os.path.dirname(os.path.dirname(os.path.abspath(__file__)))
src = json.load(open(os.path.join(HERE, 'tools', 'manifest_src.json')))
lock = json.load(open(os.path.join(HERE, 'obligations.lock.json')))
props = [json.loads(l)['id'] for l in open(os.path.join(HERE, 'properties.jsonl'))]
checks, na = [], []
for p in props:
    e = src['checks'].get(p)
    if e and lock.get(p):
        checks.append(dict(
            property_id=p,
            quick_cmd=f"./check {p} --tier quick",
            thorough_cmd=f"./check {p} --tier thorough",
            evidence_file=f"evidence/{p}.json",
            replay_cmd_template="./check replay {path}",
            engine="rvc",
            level_claimed=dict(category="proof", text=e['text'], design_ref=e.get('design_ref', 'DESIGN.md section 3')),
            level_note=e['note'],
            technique=e.get('technique', "contract-based deductive verification: all-path symbolic execution of the real source over the reals, obligations discharged by z3/cvc5")))
    else:
        na.append(dict(property_id=p, reason=src['not_applicable'].get(p, "no check built yet in this session (see DESIGN.md)")))
m = dict(version=1,
         setup_cmd="./setup.sh",
         notes=src['notes'],
         hooks=dict(guard="AHRS_VERIF", enable="no source hooks: the real source is instrumented at import time by rvc/loader.py (nothing in /repo is built or edited)",
                    baseline_off_cmd="cd /repo && /venv/bin/python -m pytest -q -p no:cacheprovider --timeout=900",
                    source_commits=[], add_only=True),
         engines=[dict(name="rvc", path="rvc/", serves_properties=[c['property_id'] for c in checks],
                       kind_free_text="VC generator by symbolic execution of the real Python/NumPy source over real-valued terms; z3 + cvc5 back ends; concrete replay on /venv/bin/python")],
         checks=checks, not_applicable=na)
json.dump(m, open(os.path.join(HERE, 'MANIFEST.json'), 'w'), indent=1)
print("checks:", [c['property_id'] for c in checks], "na:", [n['property_id'] for n in na])
