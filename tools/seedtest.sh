#!/bin/sh
# tools/seedtest.sh <seeded/dir> <property-id> [notests]
# applies the seeded change to /repo, runs its demo (must fail), the pinned suite (must pass), the check (must report), undoes the change
d="$1"; id="$2"
cd /repo || exit 9
git diff --quiet || { echo "/repo not clean"; exit 9; }
git apply "/verif/$d/patch.diff" || { echo "patch does not apply"; exit 9; }
trap 'git -C /repo checkout -- . ' EXIT
PYTHONPATH=/repo /venv/bin/python "/verif/$d/demo.py" >/dev/null 2>&1; echo "demo exit (patched) = $?"
if [ "$3" != "notests" ]; then
  /venv/bin/python -m pytest -q -p no:cacheprovider --timeout=900 tests 2>&1 | tail -1
fi
cd /verif && ./check "$id" > /tmp/seedtest.out 2>&1; rc=$?
echo "check exit = $rc"; grep -E "VIOLATION|ENGINE" /tmp/seedtest.out | head -5
