#!/usr/bin/env python3
"""print a per-property summary from the evidence files (for DESIGN.md section 3)"""
import json, os, glob
HERE = os.path.dirname(os.path.dirname(os.path.abspath(__file__)))
print('| id | obligations discharged | units | paths | by back end | cross-check models | concrete/bounded units | not claimed | quick wall |')
print('|---|---|---|---|---|---|---|---|---|')
for f in sorted(glob.glob(os.path.join(HERE, 'evidence', 'C*.json'))):
    e = json.load(open(f)); c = e['coverage']
    conc = '; '.join(f"{x['unit'].split('/',1)[1]}: {x['points']} pts ({x['label'].split(':')[0]})" for x in c.get('concrete_points', []))
    print(f"| {e['property_id']} | {c['discharged']}/{c['obligations']} | {len(c['units'])} | {sum(u['paths'] for u in c['units'])} | "
          f"{c['discharged_by']} | {c['crosscheck']['models_run_on_cpython']} | {conc or '-'} | {len(c['not_covered'])} | {e['wall_s']:.0f} s |")
