#!/usr/bin/env python3
"""confirm every seeded change: apply to /repo, demo must fail, pinned suite must pass, run the mapped checks
(restricted with --only to the units that concern the change), undo; write seeded/<id>/meta.json and seeded/SUMMARY.md"""
import json, os, subprocess, sys, time
HERE = os.path.dirname(os.path.dirname(os.path.abspath(__file__)))
smap = json.load(open(os.path.join(HERE, 'tools', 'seed_map.json')))
only = sys.argv[1:]
rows = []


def sh(cmd, cwd=None, timeout=3600):
    return subprocess.run(cmd, shell=True, cwd=cwd, capture_output=True, text=True, timeout=timeout)


for seed in sorted(smap):
    if only and seed not in only:
        continue
    d = os.path.join(HERE, 'seeded', seed)
    if not os.path.exists(os.path.join(d, 'patch.diff')):
        continue
    agent = json.load(open(os.path.join(d, 'meta.agent.json'))) if os.path.exists(os.path.join(d, 'meta.agent.json')) else {}
    assert sh('git diff --quiet', cwd='/repo').returncode == 0, '/repo not clean'
    base_demo = sh(f'PYTHONPATH=/repo /venv/bin/python {d}/demo.py', cwd='/repo').returncode
    ap = sh(f'git apply {d}/patch.diff', cwd='/repo')
    meta = dict(seed=seed, property=seed.split('-')[0], breaks=agent.get('summary'), needs=agent.get('needs'),
                files=agent.get('files'), demo_on_unchanged_tree_exit=base_demo)
    try:
        if ap.returncode != 0:
            meta['status'] = 'patch does not apply to the current tree'
            continue
        meta['demo_with_change_exit'] = sh(f'PYTHONPATH=/repo /venv/bin/python {d}/demo.py', cwd='/repo').returncode
        t = sh('/venv/bin/python -m pytest -q -p no:cacheprovider --timeout=900 tests 2>&1 | tail -1', cwd='/repo')
        meta['suite_with_change'] = t.stdout.strip()
        meta['checks'] = []
        for prop, flt in smap[seed]:
            t0 = time.time()
            r = sh(f'./check {prop} --only "{flt}"', cwd=HERE)
            viol = [l for l in r.stdout.splitlines() if l.startswith('VIOLATION')]
            meta['checks'].append(dict(cmd=f'./check {prop} --only "{flt}"', exit=r.returncode, violations=viol[:3],
                                       wall_s=round(time.time() - t0, 1)))
        caught = any(c['exit'] == 1 for c in meta['checks'])
        meta['status'] = 'caught' if caught else 'missed'
    finally:
        sh('git checkout -- .', cwd='/repo')
        meta['ran'] = 'tools/seed_all.py (git apply on /repo, demo, pinned suite, mapped checks with --only, git checkout -- .)'
        json.dump(meta, open(os.path.join(d, 'meta.json'), 'w'), indent=1)
        rows.append(meta)
        print(seed, meta.get('status'), meta.get('demo_with_change_exit'), meta.get('suite_with_change'),
              [(c['cmd'], c['exit']) for c in meta.get('checks', [])], flush=True)

# summary over all metas on disk
lines = ['# Seeded changes', '', '| seed | change | needs | demo (unchanged / changed) | suite | caught by | status |', '|---|---|---|---|---|---|---|']
for seed in sorted(os.listdir(os.path.join(HERE, 'seeded'))):
    p = os.path.join(HERE, 'seeded', seed, 'meta.json')
    if not os.path.exists(p):
        continue
    m = json.load(open(p))
    by = '; '.join(c['cmd'] for c in m.get('checks', []) if c['exit'] == 1) or '-'
    lines.append(f"| {seed} | {(m.get('breaks') or '')[:160]} | {(m.get('needs') or '')[:160]} | {m.get('demo_on_unchanged_tree_exit')} / {m.get('demo_with_change_exit')} | {m.get('suite_with_change')} | {by} | {m.get('status')} |")
open(os.path.join(HERE, 'seeded', 'SUMMARY.md'), 'w').write('\n'.join(lines) + '\n')
