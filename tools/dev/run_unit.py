import sys, time
sys.path.insert(0, '/verif')
from rvc import api, core
import importlib
uid = sys.argv[1]
importlib.import_module('contracts.' + uid.split('/')[0].lower())
from rvc.sym import run_unit
u = api.find_unit(uid)
if len(sys.argv) > 2:
    u.opts['timeout_ms'] = int(sys.argv[2])
r = run_unit(u)
print(u.uid, r['status'], 'paths', r['paths'], 'wall', round(r['wall_s'],2), 'explore', round(r['explore_s'],2), r['notes'][:3], r.get('engine_stats'))
for k, o in r['obligations'].items():
    if o['proved'] != o['instances'] or o['secs'] > 1 or '-v' in sys.argv:
        print('  ', k, o['instances'], o['proved'], o['refuted'], o['undecided'], o['by'], round(o['secs'],2), o['witness'])
