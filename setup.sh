#!/bin/sh
# offline setup: nothing to build; verify the tools the checks need are present
set -e
cd "$(dirname "$0")"
python3-vt -B -c "import z3, numpy, sympy; print('z3', z3.get_version_string(), 'numpy', numpy.__version__)"
/venv/bin/python -B -c "import numpy, sys; sys.path.insert(0, '/repo'); import ahrs; print('runtime numpy', numpy.__version__)"
python3-vt -B rvc/selfcheck.py
